from __future__ import annotations
import os
import sys


def main(argv):
    if len(argv) < 2:
        print('usage: vcheck <property> quick|thorough')
        return 3
    prop, tier = argv[0], argv[1]
    tier = os.environ.get('VERIF_TIER', tier)
    seed = int(os.environ.get('VERIF_SEED', '0') or 0)
    sys.setrecursionlimit(20000)
    # every import of soupsieve in this process and its workers comes from the tree under check (default /repo)
    repo = os.environ.get('VERIF_REPO', '/repo')
    if repo not in sys.path:
        sys.path.insert(0, repo)
    from . import runner
    return runner.run_property(prop, tier, seed)


if __name__ == '__main__':
    sys.exit(main(sys.argv[1:]))
