from __future__ import annotations
import os
import sys


def main(argv):
    if len(argv) < 2:
        print('usage: vcheck <property> quick|thorough')
        return 3
    prop, tier = argv[0], argv[1]
    tier = os.environ.get('VERIF_TIER', tier)
    seed = int(os.environ.get('VERIF_SEED', '0') or 0)
    sys.setrecursionlimit(20000)
    # watchdog (set by vcheck): a run that exceeds its wall-clock limit kills its pool workers and exits with 137, so that vcheck can
    # start it once more instead of a hung run sitting there (a fork-related hang was observed once).  The process group is left alone:
    # whoever started the check can still stop all of it.
    wd = int(os.environ.get('PYVC_WATCHDOG', '0') or 0)
    if wd > 0:
        import signal

        def _bark(signum, frame):
            try:
                sys.stderr.write(f'ENGINE-NOTE: {prop} {tier} exceeded {wd} s; killing the run\n')
                sys.stderr.flush()
                import multiprocessing as _mp
                for ch in _mp.active_children():
                    try:
                        ch.kill()
                    except Exception:
                        pass
            finally:
                os._exit(137)
        signal.signal(signal.SIGALRM, _bark)
        signal.alarm(wd)
    # every import of soupsieve in this process and its workers comes from the tree under check (default /repo)
    repo = os.environ.get('VERIF_REPO', '/repo')
    if repo not in sys.path:
        sys.path.insert(0, repo)
    from . import runner
    return runner.run_property(prop, tier, seed)


if __name__ == '__main__':
    sys.exit(main(sys.argv[1:]))
