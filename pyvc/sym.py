"""pyvc symbolic executor: real function AST + sidecar contract -> verification conditions.

Forward symbolic execution, path splitting at branches (with state merging where both arms fall
through), loops cut at invariants, calls replaced by callee contracts, every raising operation an
obligation unless caught or allowed by the contract.  See DESIGN.md section 3 and Appendix D.
"""
from __future__ import annotations
import ast
import itertools
import z3
from .types import (z3_string_value, T, INT, BOOL, REAL, STR, CPS, FLAGS, NONET, TUnint, TOpt, TSeq, TTup, TUnion, TMap, TRec,
                    V, VNone, VPy, VObj, ObjType, const_value, str_to_cps)


class Unsupported(Exception):
    """The function uses a construct outside the accepted subset (reported as 'out of reach')."""

    def __init__(self, msg, node=None):
        line = getattr(node, 'lineno', None)
        super().__init__(f'{msg}' + (f' (line {line})' if line else ''))
        self.node = node


EXC_PARENT = {
    'IndexError': 'LookupError', 'KeyError': 'LookupError', 'LookupError': 'Exception',
    'ValueError': 'Exception', 'TypeError': 'Exception', 'AttributeError': 'Exception',
    'StopIteration': 'Exception', 'ZeroDivisionError': 'ArithmeticError', 'ArithmeticError': 'Exception',
    'UnicodeDecodeError': 'ValueError', 'NotImplementedError': 'RuntimeError', 'RuntimeError': 'Exception',
    'SelectorSyntaxError': 'Exception', 'OverflowError': 'ArithmeticError', 'RecursionError': 'RuntimeError',
    'Exception': 'BaseException', 'AssertionError': 'Exception',
}


def exc_is(exc, cls):
    while exc is not None:
        if exc == cls:
            return True
        exc = EXC_PARENT.get(exc)
    return False


class Obligation:
    def __init__(self, oid, kind, desc, assumptions, goal, fn, line):
        self.id = oid
        self.kind = kind
        self.desc = desc
        self.assumptions = assumptions
        self.goal = goal
        self.fn = fn
        self.line = line
        self.tags = {}

    def __repr__(self):
        return f'<{self.id} {self.kind} L{self.line}: {self.desc}>'


class State:
    __slots__ = ('env', 'heap', 'pc', 'guards', 'handlers', 'raised', 'yields', 'old_env', 'old_heap')

    def __init__(self):
        self.env = {}
        self.heap = {}
        self.pc = []
        self.guards = []
        self.handlers = []
        self.raised = []
        self.yields = None
        self.old_env = None
        self.old_heap = None

    def copy(self):
        s = State()
        s.env = dict(self.env)
        s.heap = dict(self.heap)
        s.pc = list(self.pc)
        s.guards = list(self.guards)
        s.handlers = list(self.handlers)
        s.raised = []
        s.yields = self.yields
        s.old_env = self.old_env
        s.old_heap = self.old_heap
        return s


class Outcome:
    __slots__ = ('kind', 'state', 'value', 'exc', 'line')

    def __init__(self, kind, state, value=None, exc=None, line=None):
        self.kind = kind
        self.state = state
        self.value = value
        self.exc = exc
        self.line = line


class Contract:
    def __init__(self, qual, params, returns=None, requires=(), ensures=(), raises=None, modifies=(),
                 loops=None, locals=None, decreases=None, kind='function', yields=None, pure=True,
                 exc_ensures=None, unfold=2, uses=(), notes='', properties=(), selftype=None, opaque=False,
                 merge=True, kf_region=None, kf_id=None, strmode=None, allow_overapprox_regex=False):
        self.qual = qual
        self.params = params            # ordered dict name -> T | ObjType
        self.returns = returns          # T or None
        self.requires = list(requires)
        self.ensures = list(ensures)
        self.raises = dict(raises or {})  # exc name -> condition string or None ("may")
        self.modifies = list(modifies)  # 'self.field'
        self.loops = loops or {}
        self.locals = locals or {}
        self.decreases = decreases
        self.kind = kind                # 'function' | 'generator'
        self.exc_ensures = exc_ensures or {}
        self.unfold = unfold
        self.uses = list(uses)
        self.notes = notes
        self.properties = list(properties)
        self.opaque = opaque            # contract assumed, body not verified (must be listed as trusted)
        self.merge = merge
        self.kf_region = kf_region      # known-finding region (spec expr over params): ensures hold outside it
        self.kf_id = kf_id
        self.uses = []                  # lemma instances assumed at exit: dict(fact=<spec expr>, by=[lemma contract quals proved elsewhere])
        self.assumes = []               # tree-shape preconditions taken from the property's quantifier domain (e.g. 'attribute values
                                        # have the shapes parsers store'): assumed at entry, NOT checked at call sites, listed in evidence
        self.defines = []               # definitional namings: `result == name(args)` assumed at call sites only (name is the
                                        # uninterpreted SMT name of this pure function's result; only functional consistency is used)
        self.match_params = {}          # parameter name -> qualified name of the regex whose match object it is
        self.joined_locals = ()         # local lists only appended to and ''.join-ed: represented by their concatenation
        self.strmode = strmode
        self.allow_overapprox_regex = allow_overapprox_regex


_fresh = [0]


def reset_fresh():
    """Names of fresh symbols restart for every function so that the VCs (and the solver's behaviour on them)
    do not depend on what the worker process verified before."""
    _fresh[0] = 0


def fresh_name(base):
    _fresh[0] += 1
    return f'{base}!{_fresh[0]}'


def fresh(t: T, base='v'):
    return V(t, z3.Const(fresh_name(base), t.sort()))


class Engine:
    """Verifies one function against its contract."""

    def __init__(self, world, contract: Contract, fnode: ast.FunctionDef, module_ns: dict, cls_qual=None):
        self.world = world              # World: contracts, specs, primitives, constant resolver
        self.c = contract
        self.fnode = fnode
        self.ns = module_ns             # real module globals (constants, imported modules)
        self.cls_qual = cls_qual
        self.obligations: list[Obligation] = []
        self.spec_mode = 0
        self.loop_ord = 0
        self.oid = itertools.count(1)
        self.path_limit = 4000
        self.paths = 0
        self.covers = []                # (line, pc) reachability checks
        self.cur_line = fnode.lineno
        self.spec_instances = []

    # ------------------------------------------------------------------ obligations
    def oblige(self, st: State, kind, goal, desc, line=None):
        if self.spec_mode:
            return
        goal = goal if z3.is_expr(goal) else z3.BoolVal(bool(goal))
        if z3.is_true(z3.simplify(goal)):
            goal = z3.BoolVal(True)
        if st.guards:
            goal = z3.Implies(z3.And(*st.guards), goal)
        line = line or self.cur_line
        oid = f'{self.c.qual.split(".")[-1]}/L{line}/{kind}#{next(self.oid)}'
        self.obligations.append(Obligation(oid, kind, desc, list(st.pc), goal, self.c.qual, line))

    def may_raise(self, st: State, exc, cond, desc):
        """Operation raises `exc` when `cond` (under the current guards)."""
        if self.spec_mode:
            return
        if not z3.is_expr(cond):
            cond = z3.BoolVal(bool(cond))
        full = z3.And(*st.guards, cond) if st.guards else cond
        if z3.is_false(z3.simplify(full)):
            return
        for h in reversed(st.handlers):
            if any(exc_is(exc, cls) for cls in h):
                st.raised.append((exc, list(st.pc) + [full], dict(st.env), dict(st.heap), self.cur_line))
                st.pc.append(z3.Not(full))
                return
        for allowed in self.c.raises:
            if exc_is(exc, allowed):
                st.raised.append((exc, list(st.pc) + [full], dict(st.env), dict(st.heap), self.cur_line))
                st.pc.append(z3.Not(full))
                return
        self.oblige_raw(st, 'no-raise', z3.Not(full), f'{desc} cannot raise {exc}')
        st.pc.append(z3.Not(full))

    def oblige_raw(self, st, kind, goal, desc):
        if z3.is_true(z3.simplify(goal)):
            goal = z3.BoolVal(True)
        oid = f'{self.c.qual.split(".")[-1]}/L{self.cur_line}/{kind}#{next(self.oid)}'
        self.obligations.append(Obligation(oid, kind, desc, list(st.pc), goal, self.c.qual, self.cur_line))

    # ------------------------------------------------------------------ coercions
    def coerce(self, v, t: T, node=None):
        if isinstance(v, V) and v.t == t:
            return v
        if isinstance(v, VPy) and isinstance(v.obj, tuple) and len(v.obj) == 4 and v.obj[0] == 'choice':
            _, c_, a_, b_ = v.obj
            x, y = self.coerce(a_, t, node), self.coerce(b_, t, node)
            return V(t, z3.If(c_, x.term, y.term))
        hook = getattr(self.world, 'coerce_hook', None)
        if hook is not None:
            r = hook(self, v, t, node)
            if r is not None:
                return r
        if isinstance(v, VNone):
            if isinstance(t, TOpt):
                return V(t, t.none())
            if isinstance(t, (TUnint, TRec)) and t.none is not None:
                return V(t, t.none)
            raise Unsupported(f'None where {t.name} expected', node)
        if isinstance(v, VPy) and isinstance(v.obj, tuple) and isinstance(t, TTup) and len(v.obj) == len(t.items):
            items = [self.coerce(x if isinstance(x, (V, VNone, VPy)) else const_value(x), it, node) for x, it in zip(v.obj, t.items)]
            return V(t, t.mk(*[i.term for i in items]))
        if isinstance(v, VPy) and isinstance(v.obj, (tuple, list)) and any(isinstance(x, (V, VPy, tuple)) for x in v.obj):
            tt = t.inner if isinstance(t, TOpt) else t
            if isinstance(tt, TSeq):
                items = [self.coerce(x if isinstance(x, (V, VNone, VPy)) else (VPy(x) if isinstance(x, tuple) else const_value(x)), tt.elem, node)
                         for x in v.obj]
                sv = V(tt, self.mk_seq(tt, [i.term for i in items]))
                return sv if tt is t else V(t, t.some(sv.term))
        if isinstance(v, VPy) and isinstance(v.obj, (tuple, list)) and isinstance(t, TSeq) and v.obj and isinstance(t.elem, (TRec, TUnint)):
            # a literal list of module-level objects (e.g. [CSS_DEFINED]): element-wise, through the hook that names such constants
            items = [self.coerce(x if isinstance(x, (V, VNone, VPy)) else VPy(x), t.elem, node) for x in v.obj]
            return V(t, self.mk_seq(t, [i.term for i in items]))
        if isinstance(v, VPy):
            lifted = self.lift_py(v.obj, t, node)
            if lifted is not None:
                return lifted
            raise Unsupported(f'cannot use {v!r} as {t.name}', node)
        if isinstance(v, VObj):
            raise Unsupported(f'object {v.name} where {t.name} expected', node)
        if isinstance(v.t, TOpt) and isinstance(v.t.inner, TUnion) and isinstance(t, TOpt) and t.inner in v.t.inner.alts.values():
            # Optional[str | list] used where Optional[str] is expected: the value must not be the other alternative
            u = v.t.inner
            alt = next(a_ for a_, at in u.alts.items() if at == t.inner)
            cs = getattr(self, 'cur_state', None)
            if cs is not None and not self.spec_mode:
                self.oblige(cs, 'union-alt', z3.Or(v.t.is_none(v.term), u.is_alt(v.t.val(v.term), alt)), f'value is None or a {t.inner.name}')
            return V(t, z3.If(v.t.is_none(v.term), t.none(), t.some(u.get(v.t.val(v.term), alt))))
        if isinstance(v.t, TOpt) and isinstance(v.t.inner, TUnion) and t in v.t.inner.alts.values():
            u = v.t.inner
            alt = next(a_ for a_, at in u.alts.items() if at == t)
            cs = getattr(self, 'cur_state', None)
            if cs is not None and not self.spec_mode:
                self.oblige(cs, 'union-alt', z3.And(z3.Not(v.t.is_none(v.term)), u.is_alt(v.t.val(v.term), alt)), f'value is a {t.name} (not None, not another alternative)')
            return V(t, u.get(v.t.val(v.term), alt))
        if isinstance(v.t, TUnion) and t in v.t.alts.values():
            alt = next(a_ for a_, at in v.t.alts.items() if at == t)
            cs = getattr(self, 'cur_state', None)
            if cs is not None and not self.spec_mode:
                self.oblige(cs, 'union-alt', v.t.is_alt(v.term, alt), f'value is a {t.name}')
            return V(t, v.t.get(v.term, alt))
        if isinstance(v.t, TOpt) and v.t.inner == t:
            # implicit narrowing Opt[T] -> T: the value must not be None here
            cs = getattr(self, 'cur_state', None)
            if cs is not None and not self.spec_mode:
                self.oblige(cs, 'not-none', z3.Not(v.t.is_none(v.term)), f'Optional value used as {t.name} is not None')
            return V(t, v.t.val(v.term))
        if isinstance(t, TOpt):
            if isinstance(v.t, TOpt):
                if v.t.inner == INT and t.inner == FLAGS:
                    return V(t, z3.If(v.t.is_none(v.term), t.none(), t.some(z3.Int2BV(v.t.val(v.term), 16))))
                raise Unsupported(f'{v.t.name} where {t.name} expected', node)
            inner = self.coerce(v, t.inner, node)
            return V(t, t.some(inner.term))
        if t == REAL and v.t == INT:
            return V(REAL, z3.ToReal(v.term))
        if t == FLAGS and v.t == INT:
            return V(FLAGS, z3.Int2BV(v.term, 16))
        if t == INT and v.t == BOOL:
            return V(INT, z3.If(v.term, 1, 0))
        if t == CPS and v.t == STR and z3.is_string_value(v.term):
            return V(CPS, str_to_cps(z3_string_value(v.term)))
        if t == BOOL and v.t != BOOL and v.truth_only:
            return V(BOOL, v.term)
        if isinstance(t, TSeq) and isinstance(v.t, TSeq) and t.elem == REAL and v.t.elem == INT:
            raise Unsupported('Seq[int] -> Seq[float] coercion of a symbolic sequence', node)
        if isinstance(t, TUnion):
            for a, at in t.alts.items():
                if at is not None and at == v.t:
                    return V(t, t.mk(a, v.term))
        raise Unsupported(f'{v.t.name} where {t.name} expected', node)

    def lift_py(self, obj, t: T, node=None):
        if obj is None:
            return self.coerce(VNone(), t, node)
        if isinstance(obj, bool) and t == BOOL:
            return V(BOOL, z3.BoolVal(obj))
        if isinstance(obj, int) and not isinstance(obj, bool):
            if t == INT:
                return V(INT, z3.IntVal(obj))
            if t == FLAGS:
                return V(FLAGS, z3.BitVecVal(obj, 16))
            if t == REAL:
                return V(REAL, z3.RealVal(obj))
        if isinstance(obj, str):
            if t == STR:
                return V(STR, z3.StringVal(obj))
            if t == CPS:
                return V(CPS, str_to_cps(obj))
        if isinstance(obj, dict) and isinstance(t, TMap):
            term = z3.K(t.k.sort(), t.vopt.none())
            for k, v in obj.items():
                kv = self.lift_py(k, t.k, node)
                vv = self.coerce(v if isinstance(v, (V, VNone, VPy)) else const_value(v), t.v, node)
                term = z3.Store(term, kv.term, t.vopt.some(vv.term))
            return V(t, term)
        if isinstance(obj, list) and not obj and t == CPS:
            return V(CPS, z3.Empty(CPS.sort()))
        if isinstance(obj, (tuple, list)) and isinstance(t, TSeq):
            items = [self.lift_py(o, t.elem, node) for o in obj]
            if any(i is None for i in items):
                return None
            return V(t, self.mk_seq(t, [i.term for i in items]))
        if isinstance(t, TUnion):
            for a_, at in t.alts.items():
                if at is not None:
                    lv = self.lift_py(obj, at, node)
                    if lv is not None:
                        return V(t, t.mk(a_, lv.term))
        if isinstance(t, TOpt):
            inner = self.lift_py(obj, t.inner, node)
            if inner is not None:
                return V(t, t.some(inner.term))
        return None

    def mk_seq(self, t: TSeq, terms):
        if not terms:
            return z3.Empty(t.sort())
        units = [z3.Unit(x) for x in terms]
        return units[0] if len(units) == 1 else z3.Concat(*units)

    def unify(self, a, b, node=None):
        """Bring two values to a common type (for ==, ite-merge, comparisons)."""
        if isinstance(a, VNone) and isinstance(b, VNone):
            return a, b
        if isinstance(a, VNone):
            b2, a2 = self.unify(b, a, node)
            return a2, b2
        if isinstance(b, VNone):
            if isinstance(a, VPy):
                return a, b
            if isinstance(a, V):
                if isinstance(a.t, TOpt) or (isinstance(a.t, (TUnint, TRec)) and a.t.none is not None):
                    return a, self.coerce(b, a.t, node)
                ot = TOpt(a.t)
                return self.coerce(a, ot, node), V(ot, ot.none())
            raise Unsupported('comparison of an object with None', node)
        if isinstance(a, VPy) and isinstance(b, VPy):
            return a, b
        if isinstance(a, VPy):
            b2, a2 = self.unify(b, a, node)
            return a2, b2
        if isinstance(b, VPy):
            if isinstance(a, V):
                lifted = self.lift_py(b.obj, a.t, node)
                if lifted is None and isinstance(a.t, TOpt):
                    lifted = self.lift_py(b.obj, a.t.inner, node)
                    if lifted is not None:
                        lifted = self.coerce(lifted, a.t, node)
                if lifted is None and a.t == STR and isinstance(b.obj, str):
                    lifted = V(STR, z3.StringVal(b.obj))
                if lifted is None:
                    hook = getattr(self.world, 'coerce_hook', None)
                    lifted = hook(self, b, a.t, node) if hook is not None else None      # e.g. a module-level IR constant
                if lifted is None:
                    raise Unsupported(f'cannot relate {a.t.name} with constant {b.obj!r}', node)
                return a, lifted
            raise Unsupported('comparison of object with constant', node)
        if isinstance(a, VObj) or isinstance(b, VObj):
            raise Unsupported('comparison of mutable objects', node)
        if a.t == b.t:
            return a, b
        if isinstance(a.t, TOpt) and a.t.inner == b.t:
            return a, self.coerce(b, a.t, node)
        if isinstance(b.t, TOpt) and b.t.inner == a.t:
            return self.coerce(a, b.t, node), b
        if {a.t, b.t} == {INT, REAL}:
            return self.coerce(a, REAL), self.coerce(b, REAL)
        if {a.t, b.t} == {INT, FLAGS}:
            return self.coerce(a, FLAGS), self.coerce(b, FLAGS)
        for x, y in ((a, b), (b, a)):
            if isinstance(x.t, TOpt) and {x.t.inner, y.t} == {INT, FLAGS} or (isinstance(x.t, TOpt) and isinstance(y.t, TOpt) and {x.t.inner, y.t.inner} == {INT, FLAGS}):
                a2, b2 = self.coerce(a, TOpt(FLAGS), node), self.coerce(b, TOpt(FLAGS), node)
                return a2, b2
        if {a.t, b.t} == {INT, BOOL}:
            return self.coerce(a, INT), self.coerce(b, INT)
        if a.t == CPS and b.t == STR:
            return a, self.coerce(b, CPS, node)
        if a.t == STR and b.t == CPS:
            return self.coerce(a, CPS, node), b
        if isinstance(a.t, TOpt) and isinstance(a.t.inner, TUnion) and b.t in a.t.inner.alts.values():
            return a, self.coerce(self.coerce(b, a.t.inner, node), a.t, node)
        if isinstance(b.t, TOpt) and isinstance(b.t.inner, TUnion) and a.t in b.t.inner.alts.values():
            return self.coerce(self.coerce(a, b.t.inner, node), b.t, node), b
        if isinstance(a.t, TUnion) and not isinstance(b.t, TUnion):
            return a, self.coerce(b, a.t, node)
        if isinstance(b.t, TUnion) and not isinstance(a.t, TUnion):
            return self.coerce(a, b.t, node), b
        raise Unsupported(f'cannot relate {a.t.name} and {b.t.name}', node)

    def truthy(self, v, node=None):
        if isinstance(v, VNone):
            return z3.BoolVal(False)
        if isinstance(v, VPy):
            return z3.BoolVal(bool(v.obj))
        if isinstance(v, VObj):
            return z3.BoolVal(True)
        if v.truth_only:
            return v.term
        return v.t.truthy(v.term)

    def eq(self, a, b, node=None):
        a, b = self.unify(a, b, node)
        if isinstance(a, VNone):
            return z3.BoolVal(True)
        if isinstance(a, VPy):
            if isinstance(b, VNone):
                return z3.BoolVal(a.obj is None)
            return z3.BoolVal(a.obj == b.obj)
        return a.term == b.term

    # ------------------------------------------------------------------ spec evaluation
    def spec_eval(self, text, st: State, extra_env=None):
        """Evaluate a contract expression (Python syntax) in state `st`."""
        tree = self.world.parse_spec_expr(text)
        s = st.copy()
        if st.yields is not None and 'yields' not in s.env:
            s.env['yields'] = st.yields
        if extra_env:
            s.env.update(extra_env)
        s.guards = []
        s.handlers = []
        self.spec_mode += 1
        try:
            v = self.ev(tree, s)
        finally:
            self.spec_mode -= 1
        return v

    def spec_bool(self, text, st, extra_env=None):
        v = self.spec_eval(text, st, extra_env)
        return self.truthy(v)

    # ------------------------------------------------------------------ top level
    def check_joined_locals(self):
        """A local list may be represented by the concatenation of its items only if every use is
        `x = []`, `x.append(e)` or `''.join(x)`."""
        names = set(self.c.joined_locals)
        if not names:
            return
        ok_nodes = set()
        for n in ast.walk(self.fnode):
            if isinstance(n, ast.Call) and isinstance(n.func, ast.Attribute):
                if n.func.attr == 'append' and isinstance(n.func.value, ast.Name) and n.func.value.id in names:
                    ok_nodes.add(id(n.func.value))
                if n.func.attr == 'join' and isinstance(n.func.value, ast.Constant) and n.func.value.value == '' and \
                        len(n.args) == 1 and isinstance(n.args[0], ast.Name) and n.args[0].id in names:
                    ok_nodes.add(id(n.args[0]))
            if isinstance(n, (ast.Assign, ast.AnnAssign)):
                tgts = n.targets if isinstance(n, ast.Assign) else [n.target]
                for t_ in tgts:
                    if isinstance(t_, ast.Name) and t_.id in names:
                        v = n.value
                        if not (isinstance(v, ast.List) and not v.elts):
                            raise Unsupported(f'joined local {t_.id} is assigned something other than []', n)
                        ok_nodes.add(id(t_))
        for n in ast.walk(self.fnode):
            if isinstance(n, ast.Name) and n.id in names and id(n) not in ok_nodes:
                raise Unsupported(f'joined local {n.id} is used other than by append / \'\'.join (line {n.lineno})', n)

    def run(self):
        c = self.c
        self.check_joined_locals()
        st = State()
        args = self.fnode.args
        pnames = [a.arg for a in args.posonlyargs + args.args + args.kwonlyargs]
        if getattr(self, 'fn_kind', None) == 'classmethod' and pnames and pnames[0] not in c.params:
            st.env[pnames[0]] = VPy(('class', self.cls_qual), self.cls_qual)
            pnames = pnames[1:]
        for p in pnames:
            if p not in c.params:
                raise Unsupported(f'parameter {p} has no declared sort in the contract', self.fnode)
        if set(c.params) - set(pnames) - set(c.locals):
            extra = set(c.params) - set(pnames)
            # free variables of nested functions are passed as extra parameters
            pnames += [p for p in c.params if p in extra]
        for p in pnames:
            pt = c.params[p]
            st.env[p] = self.fresh_param(p, pt, st)
        if c.kind == 'generator':
            yt = c.returns
            st.yields = V(yt, z3.Empty(yt.sort()))
        st.old_env = dict(st.env)
        st.old_heap = dict(st.heap)
        self.world.assume_param_facts(self, st)
        for r in list(c.requires) + list(c.assumes):
            st.pc.append(self.spec_bool(r, st))
        self.pre_pc = list(st.pc)
        outs = self.exec_block(self.fnode.body, st)
        for o in outs:
            self.finish(o)
        return self.obligations

    def fresh_param(self, name, pt, st):
        if name in self.c.match_params:
            return self.world.rx.fresh_match_param(self, name, self.c.match_params[name], st)
        if isinstance(pt, ObjType):
            term = z3.Const(f'{name}', pt.rec.sort())
            obj = VObj(name, pt, term)
            for f, ft in pt.mut.items():
                st.heap[(name, f)] = V(ft, z3.Const(f'{name}.{f}@0', ft.sort()))
            return obj
        # a parameter that shares its name with a vocabulary function (`parent`, `name`, `text`, ...) gets a distinct SMT name: SMT-LIB
        # allows the overloading, cvc5's parser wants a cast for it
        vocab = getattr(self.world, 'tree', None)
        clash = vocab is not None and isinstance(getattr(vocab, name, None), z3.FuncDeclRef)
        return V(pt, z3.Const(name + '$arg' if clash else name, pt.sort()))

    def finish(self, o: Outcome):
        c = self.c
        st = o.state
        # in postconditions parameter names denote their ENTRY values (a function may rebind its parameters)
        for p_, v_ in (st.old_env or {}).items():
            if p_ in c.params:
                st.env[p_] = v_
        self.cur_line = o.line or self.fnode.end_lineno
        if o.kind in ('break', 'continue'):
            raise Unsupported('break/continue outside a loop')
        if o.kind == 'raise':
            ok = any(exc_is(o.exc, a) for a in c.raises)
            if not ok:
                self.oblige_raw(st, 'no-raise', z3.BoolVal(False), f'explicit raise {o.exc} is not allowed by the contract')
                return
            for a, cond in c.raises.items():
                if exc_is(o.exc, a) and cond:
                    ctext = cond[4:] if cond.startswith('iff:') else cond
                    g = self.spec_bool(ctext, st)
                    self.oblige_raw(st, 'raise-only-when', g, f'{o.exc} raised only when: {ctext}')
            for a, posts in c.exc_ensures.items():
                if exc_is(o.exc, a):
                    for p in posts:
                        self.oblige_raw(st, 'exc-post', self.spec_bool(p, st), f'on {a}: {p}')
            self.covers.append((self.cur_line, 'raise', list(st.pc)))
            return
        # normal return
        if c.kind == 'generator':
            result = st.yields
        else:
            result = o.value if o.kind == 'return' and o.value is not None else VNone()
            if c.returns is not None:
                if (isinstance(result, V) and isinstance(result.t, TOpt) and isinstance(c.returns, TOpt)
                        and result.t != c.returns):
                    # `return x` where x: Opt[A] but the function returns Opt[B]: only legal when x is None here
                    self.oblige_raw(st, 'return-sort', result.t.is_none(result.term),
                                    f'value of sort {result.t.name} returned as {c.returns.name} is None')
                    result = VNone()
                result = self.coerce(result, c.returns)
            elif not isinstance(result, VNone):
                raise Unsupported('function returns a value but the contract declares none')
        # exact raise conditions: if the contract says exc is raised *iff* cond, a normal return needs not cond
        for a, cond in c.raises.items():
            if cond and cond.startswith('iff:'):
                g = self.spec_bool(cond[4:], st)
                self.oblige_raw(st, 'must-raise', z3.Not(g), f'returns normally although {a} is required when: {cond[4:]}')
        self.apply_uses(st)
        region = None
        if c.kf_region:
            es = st.copy()
            es.env = dict(st.old_env)
            es.heap = dict(st.old_heap)
            region = self.spec_bool(c.kf_region, es)
        for e in c.ensures:
            g = self.spec_bool(e, st, {'result': result})
            if region is not None:
                g = z3.Or(region, g)
            self.oblige_raw(st, 'post', g, f'ensures {e}' + (f'   [outside known-finding region {c.kf_id}]' if region is not None else ''))
        for m in self.frame_fields(st):
            pass
        self.check_frame(st)
        self.covers.append((self.cur_line, 'return', list(st.pc)))

    def apply_uses(self, st):
        """Explicit use of lemmas proved separately (base + step; induction over the naturals is the meta-rule): the instance is a
        valid fact about the current state wherever it is stated (function exit and loop entries)."""
        for u in self.c.uses:
            st.pc.append(self.spec_bool(u['fact'], st))

    def frame_fields(self, st):
        return ()

    def check_frame(self, st):
        """Every heap field not listed in `modifies` must equal its entry value."""
        for key, v in st.heap.items():
            objname, f = key
            if f'{objname}.{f}' in self.c.modifies or self.fnode.name == '__init__':
                continue
            old = st.old_heap.get(key)
            if old is None or old is v:
                continue
            if isinstance(v, V) and isinstance(old, V):
                self.oblige_raw(st, 'frame', v.term == old.term, f'{objname}.{f} is restored/unchanged (not in modifies)')

    # ------------------------------------------------------------------ statements
    def exec_block(self, stmts, st: State):
        """Execute statements; returns outcomes."""
        states = [st]
        outs = []
        for s in stmts:
            nxt = []
            for cur in states:
                for o in self.exec_stmt(s, cur):
                    if o.kind == 'fall':
                        nxt.append(o.state)
                    else:
                        outs.append(o)
            states = nxt
            if not states:
                break
            self.paths += len(states)
            if self.paths > self.path_limit:
                raise Unsupported('path limit exceeded')
        outs.extend(Outcome('fall', s) for s in states)
        return outs

    def flush_raises(self, st: State):
        outs = []
        for exc, pc, env, heap, line in st.raised:
            s = st.copy()
            s.pc, s.env, s.heap = pc, env, heap
            s.guards = []
            outs.append(Outcome('raise', s, exc=exc, line=line))
        st.raised = []
        return outs

    def exec_stmt(self, s, st: State):
        self.cur_line = getattr(s, 'lineno', self.cur_line)
        self.cur_state = st
        m = getattr(self, 'st_' + type(s).__name__, None)
        if m is None:
            raise Unsupported(f'statement {type(s).__name__}', s)
        outs = m(s, st)
        return outs

    def st_Expr(self, s, st):
        if isinstance(s.value, ast.Constant):   # docstring
            return [Outcome('fall', st)]
        if isinstance(s.value, (ast.Yield, ast.YieldFrom)):
            return self.do_yield(s.value, st)
        self.ev(s.value, st)
        return self.flush_raises(st) + [Outcome('fall', st)]

    def do_yield(self, y, st):
        if st.yields is None:
            raise Unsupported('yield in a function whose contract is not kind=generator', y)
        yt = self.c.returns
        if isinstance(y, ast.Yield):
            v = self.coerce(self.ev(y.value, st), yt.elem, y)
            st.yields = V(yt, z3.Concat(st.yields.term, z3.Unit(v.term)))
        else:
            v = self.coerce(self.ev(y.value, st), yt, y)
            st.yields = V(yt, z3.Concat(st.yields.term, v.term))
        return self.flush_raises(st) + [Outcome('fall', st)]

    def st_Pass(self, s, st):
        return [Outcome('fall', st)]

    def st_Break(self, s, st):
        return [Outcome('break', st)]

    def st_Continue(self, s, st):
        return [Outcome('continue', st)]

    def st_Return(self, s, st):
        v = self.ev(s.value, st) if s.value is not None else VNone()
        return self.flush_raises(st) + [Outcome('return', st, value=v, line=s.lineno)]

    def st_Raise(self, s, st):
        exc = None
        if s.exc is not None:
            e = s.exc
            if isinstance(e, ast.Call):
                for a in e.args:
                    if not isinstance(a, ast.JoinedStr):
                        self.ev(a, st)
                    else:
                        self.ev_fstring_parts(a, st)
                e = e.func
            if isinstance(e, ast.Name):
                exc = e.id
            elif isinstance(e, ast.Attribute):
                exc = e.attr
        if exc is None:
            raise Unsupported('raise form', s)
        outs = self.flush_raises(st)
        # is it caught by an enclosing handler?  exec_try sorts that out from the outcome kind
        return outs + [Outcome('raise', st, exc=exc, line=s.lineno)]

    def st_Assert(self, s, st):
        c = self.truthy(self.ev(s.test, st))
        outs = self.flush_raises(st)
        self.oblige(st, 'assert', c, 'assert statement holds')
        st.pc.append(c)
        return outs + [Outcome('fall', st)]

    def st_AnnAssign(self, s, st):
        if s.value is None:
            return [Outcome('fall', st)]
        v = self.ev(s.value, st)
        self.assign(s.target, v, st)
        return self.flush_raises(st) + [Outcome('fall', st)]

    def st_Assign(self, s, st):
        v = self.ev(s.value, st)
        for tgt in s.targets:
            self.assign(tgt, v, st)
        return self.flush_raises(st) + [Outcome('fall', st)]

    def st_AugAssign(self, s, st):
        cur = self.ev(s.target, st)
        rhs = self.ev(s.value, st)
        v = self.binop(s.op, cur, rhs, st, s)
        self.assign(s.target, v, st)
        return self.flush_raises(st) + [Outcome('fall', st)]

    def declared_local(self, name):
        return self.c.locals.get(name)

    def assign(self, tgt, v, st: State):
        if isinstance(tgt, ast.Name):
            lt = self.declared_local(tgt.id)
            if lt is not None and not isinstance(v, VObj):
                v = self.coerce(v, lt, tgt)
            elif isinstance(v, VNone) and isinstance(st.env.get(tgt.id), V):
                v = self.coerce(v, st.env[tgt.id].t, tgt) if self._accepts_none(st.env[tgt.id].t) else v
            st.env[tgt.id] = v
        elif isinstance(tgt, (ast.Tuple, ast.List)):
            parts = self.unpack(v, len(tgt.elts), st, tgt)
            for t_, p in zip(tgt.elts, parts):
                self.assign(t_, p, st)
        elif isinstance(tgt, ast.Attribute):
            obj = self.ev(tgt.value, st)
            if not isinstance(obj, VObj):
                raise Unsupported('attribute store on a non-object', tgt)
            if tgt.attr not in obj.rt.mut:
                if self.fnode.name == '__init__' and tgt.attr in obj.rt.rec.fields and obj.name == 'self':
                    # object under construction: its (later immutable) fields are being established
                    st.heap[(obj.name, tgt.attr)] = self.coerce(v, obj.rt.rec.fields[tgt.attr], tgt)
                    return
                raise Unsupported(f'store to undeclared mutable field {obj.name}.{tgt.attr}', tgt)
            st.heap[(obj.name, tgt.attr)] = self.coerce(v, obj.rt.mut[tgt.attr], tgt)
        else:
            raise Unsupported(f'assignment target {type(tgt).__name__}', tgt)

    @staticmethod
    def _accepts_none(t):
        return isinstance(t, TOpt) or (isinstance(t, (TUnint, TRec)) and t.none is not None)

    def unpack(self, v, n, st, node):
        if isinstance(v, VPy) and isinstance(v.obj, (tuple, list)) and len(v.obj) == n:
            return [x if isinstance(x, (V, VNone, VPy, VObj)) else const_value(x) for x in v.obj]
        if isinstance(v, V) and isinstance(v.t, TTup) and len(v.t.items) == n:
            return [V(t, v.t.get(v.term, i)) for i, t in enumerate(v.t.items)]
        raise Unsupported(f'cannot unpack {v!r} into {n} names', node)

    def st_If(self, s, st):
        cv = self.ev(s.test, st)
        outs = self.flush_raises(st)
        c = self.truthy(cv, s.test)
        cs_ = z3.simplify(c)
        if z3.is_true(cs_):
            return outs + self.exec_block(s.body, st)
        if z3.is_false(cs_):
            return outs + self.exec_block(s.orelse, st)
        base = len(st.pc)
        s1 = st.copy()
        s1.pc.append(c)
        s2 = st.copy()
        s2.pc.append(z3.Not(c))
        f1_ok, f2_ok = self.feasible(s1), self.feasible(s2)
        if not f1_ok and f2_ok:
            return outs + (self.exec_block(s.orelse, s2) if s.orelse else [Outcome('fall', s2)])
        if not f2_ok and f1_ok:
            return outs + self.exec_block(s.body, s1)
        o1 = self.exec_block(s.body, s1)
        o2 = self.exec_block(s.orelse, s2) if s.orelse else [Outcome('fall', s2)]
        f1 = [o for o in o1 if o.kind == 'fall']
        f2 = [o for o in o2 if o.kind == 'fall']
        rest = [o for o in o1 + o2 if o.kind != 'fall']
        if self.c.merge and len(f1) == 1 and len(f2) == 1:
            m = self.merge(c, f1[0].state, f2[0].state, base)
            if m is not None:
                return outs + rest + [Outcome('fall', m)]
        return outs + rest + f1 + f2

    def feasible(self, st):
        """Cheap pruning: a path whose condition is unsatisfiable (without any axioms) is dropped. Sound: only
        paths with an unsat path condition are pruned; 'unknown' keeps the path."""
        if self.spec_mode:
            return True
        sol = z3.Solver()
        sol.set('timeout', 150)
        for a in st.pc:
            sol.add(a)
        return sol.check() != z3.unsat

    def merge(self, c, a: State, b: State, base):
        """Merge two fall-through states that forked on `c` at pc index `base`."""
        if set(a.env) != set(b.env) or set(a.heap) != set(b.heap):
            # variables defined on one arm only: keep those common, drop the rest only if never read later is
            # unknowable here -> do not merge
            return None
        env = {}
        for k in a.env:
            m = self.merge_val(c, a.env[k], b.env[k])
            if m is None:
                return None
            env[k] = m
        heap = {}
        for k in a.heap:
            m = self.merge_val(c, a.heap[k], b.heap[k])
            if m is None:
                return None
            heap[k] = m
        s = a.copy()
        s.env, s.heap = env, heap
        ea, eb = a.pc[base:], b.pc[base:]
        s.pc = a.pc[:base] + [z3.Or(z3.And(*ea) if ea else z3.BoolVal(True), z3.And(*eb) if eb else z3.BoolVal(True))]
        if a.yields is not None:
            if a.yields.term.eq(b.yields.term):
                s.yields = a.yields
            else:
                s.yields = V(a.yields.t, z3.If(c, a.yields.term, b.yields.term))
        return s

    def merge_val(self, c, x, y):
        if x is y:
            return x
        if isinstance(x, VNone) and isinstance(y, VNone):
            return x
        if isinstance(x, VPy) and isinstance(y, VPy):
            if x.obj is y.obj or (type(x.obj) is type(y.obj) and isinstance(x.obj, (int, str, bool, float, tuple)) and x.obj == y.obj):
                return x
            try:
                xv, yv = const_value(x.obj), const_value(y.obj)
            except Exception:
                return None
            if isinstance(xv, V) and isinstance(yv, V) and xv.t == yv.t:
                return V(xv.t, z3.If(c, xv.term, yv.term))
            return None
        if isinstance(x, VObj) or isinstance(y, VObj):
            if isinstance(x, VObj) and isinstance(y, VObj) and x.name == y.name:
                return x
            return None
        try:
            x2, y2 = self.unify(x, y)
        except Unsupported:
            return None
        if isinstance(x2, (VNone, VPy)) or isinstance(y2, (VNone, VPy)):
            return None
        if x2.term.eq(y2.term):
            return x2
        return V(x2.t, z3.If(c, x2.term, y2.term), truth_only=x2.truth_only or y2.truth_only)

    def st_Try(self, s, st):
        if s.finalbody or s.orelse:
            raise Unsupported('try/finally or try/else', s)
        caught = []
        for h in s.handlers:
            if h.type is None:
                caught.append(('BaseException',))
            elif isinstance(h.type, ast.Name):
                caught.append((h.type.id,))
            elif isinstance(h.type, ast.Tuple):
                caught.append(tuple(e.id for e in h.type.elts))
            else:
                raise Unsupported('except clause form', h)
        inner = st.copy()
        inner.handlers = st.handlers + [tuple(x for c_ in caught for x in c_)]
        outs = self.exec_block(s.body, inner)
        result = []
        for o in outs:
            if o.kind == 'raise':
                routed = False
                for h, classes in zip(s.handlers, caught):
                    if any(exc_is(o.exc, cls) for cls in classes):
                        hs = o.state.copy()
                        hs.handlers = list(st.handlers)
                        if h.name:
                            hs.env[h.name] = VPy(('exception', o.exc))
                        result.extend(self.exec_block(h.body, hs))
                        routed = True
                        break
                if not routed:
                    o.state.handlers = list(st.handlers)
                    result.append(o)
            else:
                o.state.handlers = list(st.handlers)
                result.append(o)
        return result

    # ---- loops
    def assigned_names(self, stmts):
        names = set()
        fields = set()
        calls = []

        class Vis(ast.NodeVisitor):
            def visit_Name(s_, n):
                if isinstance(n.ctx, (ast.Store, ast.Del)):
                    names.add(n.id)

            def visit_Attribute(s_, n):
                if isinstance(n.ctx, ast.Store):
                    fields.add(ast.unparse(n))
                s_.generic_visit(n)

            def visit_Call(s_, n):
                calls.append(n)
                s_.generic_visit(n)

            def visit_FunctionDef(s_, n):
                pass

        for s in stmts:
            Vis().visit(s)
        return names, fields, calls

    def loop_spec(self, node, var):
        if not hasattr(self, '_loop_ids'):
            # ordinal = position of the loop in source order (nested function bodies excluded)
            self._loop_ids = {}

            def walk(n):
                for ch in ast.iter_child_nodes(n):
                    if isinstance(ch, (ast.FunctionDef, ast.Lambda)):
                        continue
                    if isinstance(ch, (ast.For, ast.While)):
                        self._loop_ids[id(ch)] = len(self._loop_ids) + 1
                    walk(ch)
            walk(self.fnode)
        k = self._loop_ids.get(id(node))
        if k is None:
            self._loop_ids[id(node)] = k = len(self._loop_ids) + 1
        spec = self.c.loops.get(k)
        if spec is None:
            raise Unsupported(f'loop #{k} (line {node.lineno}) has no invariant in the contract', node)
        if spec.get('var') is not None and var is not None and spec['var'] != var:
            raise Unsupported(f'loop #{k} is keyed to variable {spec["var"]!r} but the source iterates {var!r}', node)
        return k, spec

    def havoc_for_loop(self, node, st: State, spec):
        names, fields, calls = self.assigned_names(node.body + getattr(node, 'orelse', []))
        s2 = st.copy()
        for n in names:
            cur = st.env.get(n)
            lt = self.declared_local(n)
            if lt is not None:
                s2.env[n] = fresh(lt, n)
            elif isinstance(cur, V):
                s2.env[n] = fresh(cur.t, n)
            elif isinstance(cur, VNone):
                raise Unsupported(f'local {n!r} is None before a loop that assigns it: declare its sort in contract.locals', node)
            elif cur is None:
                pass
            elif isinstance(cur, VPy):
                cv = const_value(cur.obj)
                if isinstance(cv, V):
                    s2.env[n] = fresh(cv.t, n)
                else:
                    raise Unsupported(f'loop assigns {n!r} which holds a Python object', node)
        # heap: direct stores and callee modifies
        modf = set()
        for f in fields:
            modf.add(f)
        for call in calls:
            cc = self.world.resolve_call_contract(self, call, st)
            if cc is not None:
                modf.update(cc.modifies)
        for key in list(s2.heap):
            if f'{key[0]}.{key[1]}' in modf:
                s2.heap[key] = fresh(s2.heap[key].t, f'{key[0]}.{key[1]}')
        # append-style local mutation through method calls (x.append(...)) rebinds x
        for call in calls:
            if isinstance(call.func, ast.Attribute) and call.func.attr in ('append', 'extend') and isinstance(call.func.value, ast.Name):
                n = call.func.value.id
                cur = st.env.get(n)
                if isinstance(cur, V):
                    s2.env[n] = fresh(cur.t, n)
        if st.yields is not None and any(isinstance(n, (ast.Yield, ast.YieldFrom)) for b in node.body for n in ast.walk(b)):
            s2.yields = fresh(st.yields.t, 'yields')          # only a loop that yields changes what has been yielded
        return s2

    def st_While(self, s, st):
        if s.orelse:
            raise Unsupported('while/else', s)
        k, spec = self.loop_spec(s, None)
        invs = spec.get('invariant', [])
        self.apply_uses(st)
        for inv in invs:
            self.oblige_raw(st, 'loop-entry', self.spec_bool(inv, st), f'loop #{k} invariant holds on entry: {inv}')
        s2 = self.havoc_for_loop(s, st, spec)
        for inv in invs:
            s2.pc.append(self.spec_bool(inv, s2))
        var0 = None
        if spec.get('decreases'):
            var0 = self.coerce(self.spec_eval(spec['decreases'], s2), INT).term
        cv = self.ev(s.test, s2)
        outs = self.flush_raises(s2)
        c = self.truthy(cv, s.test)
        sb = s2.copy()
        sb.pc.append(c)
        se = s2.copy()
        se.pc.append(z3.Not(c))
        result = outs + [Outcome('fall', se)]
        for o in self.exec_block(s.body, sb):
            if o.kind in ('fall', 'continue'):
                self.cur_line = s.lineno
                for inv in invs:
                    self.oblige_raw(o.state, 'loop-preserve', self.spec_bool(inv, o.state), f'loop #{k} invariant preserved: {inv}')
                if var0 is not None:
                    v1 = self.coerce(self.spec_eval(spec['decreases'], o.state), INT).term
                    self.oblige_raw(o.state, 'loop-variant', z3.And(var0 >= 0, v1 < var0), f'loop #{k} variant {spec["decreases"]} decreases and is bounded')
                elif not spec.get('no_termination'):
                    raise Unsupported(f'while loop #{k} has no decreases clause', s)
                self.covers.append((s.lineno, f'loop{k}-iter', list(o.state.pc)))
            elif o.kind == 'break':
                result.append(Outcome('fall', o.state))
            else:
                result.append(o)
        return result

    def st_For(self, s, st):
        if s.orelse:
            raise Unsupported('for/else', s)
        itv = self.ev(s.iter, st)
        outs0 = self.flush_raises(st)
        # constant iterables are unrolled
        if isinstance(itv, VPy) and isinstance(itv.obj, (tuple, list)) and not (itv.obj and itv.obj[0] in ('enumerate', 'finditer')):
            states = [st]
            result = list(outs0)
            for item in itv.obj:
                nxt = []
                for cur in states:
                    self.assign(s.target, item if isinstance(item, (V, VNone, VPy, VObj)) else const_value(item), cur)
                    for o in self.exec_block(s.body, cur):
                        if o.kind in ('fall', 'continue'):
                            nxt.append(o.state)
                        elif o.kind == 'break':
                            result.append(Outcome('fall', o.state))
                        else:
                            result.append(o)
                states = nxt
            return result + [Outcome('fall', x) for x in states]
        for r in getattr(self.world, 'iter_rules', []):
            conv = r(self, itv, st, s)
            if conv is not None:
                itv = conv
                outs0 = outs0 + self.flush_raises(st)
                break
        if isinstance(itv, V) and isinstance(itv.t, TOpt) and isinstance(itv.t.inner, TSeq):
            self.may_raise(st, 'TypeError', itv.t.is_none(itv.term), 'iteration over None')
            outs0 = outs0 + self.flush_raises(st)
            itv = V(itv.t.inner, itv.t.val(itv.term))
        var = s.target.id if isinstance(s.target, ast.Name) else None
        elem_map = elem_facts = None
        if isinstance(itv, VPy) and isinstance(itv.obj, tuple) and itv.obj and itv.obj[0] == 'finditer':
            from .rx_rules import MATCH
            _, pid_, subj_, starts_ = itv.obj
            itv = starts_
            elem_map = lambda pos: V(MATCH, MATCH._dt.mk_Match(z3.IntVal(pid_), subj_.term, pos))     # noqa: E731
            elem_facts = lambda pos: self.world.rx.match_facts(pid_, self.world.rx.by_id[pid_][1], subj_.term, pos)     # noqa: E731
        if isinstance(s.target, ast.Name) and isinstance(s.iter, ast.Name):
            k_, spec_ = self.loop_spec(s, var)
            if spec_.get('iter_text'):
                # `for c in node` where node is a text node (a str subclass): its characters.  The contract states that the iterated
                # name holds a NavigableString here; that is an obligation.
                nv = self.ev(s.iter, st)
                tr = self.world.tree
                if isinstance(nv, V) and nv.t == tr.NODE:
                    self.oblige_raw(st, 'iter-text', tr.is_navstr(nv.term), f'{s.iter.id} is a text node where its characters are iterated')
                    itv = V(STR, tr.text(nv.term))
        enum = False
        if isinstance(itv, VPy) and isinstance(itv.obj, tuple) and itv.obj and itv.obj[0] == 'enumerate':
            enum = True
            itv = itv.obj[1]
            if not (isinstance(s.target, ast.Tuple) and len(s.target.elts) == 2):
                raise Unsupported('enumerate() needs a two-name target', s)
            var = s.target.elts[1].id if isinstance(s.target.elts[1], ast.Name) else None
        k, spec = self.loop_spec(s, var)
        if not (isinstance(itv, V) and isinstance(itv.t, (TSeq,)) or (isinstance(itv, V) and itv.t in (CPS, STR))):
            raise Unsupported(f'iteration over {itv!r}', s)
        seq = itv
        et = STR if seq.t == STR else (INT if seq.t == CPS else seq.t.elem)
        iname, sname = f'_i{k}', f'_seq{k}'
        st.env[sname] = seq
        st.env[iname] = V(INT, z3.IntVal(0))
        invs = spec.get('invariant', [])
        self.apply_uses(st)
        for fact in spec.get('assume_seq', []):
            # facts about the iterated sequence as a whole (part of its producer's assumed contract): known from before the loop
            st.pc.append(self.spec_bool(fact, st))
        for inv in invs:
            self.oblige_raw(st, 'loop-entry', self.spec_bool(inv, st), f'loop #{k} invariant holds on entry: {inv}')
        s2 = self.havoc_for_loop(s, st, spec)
        i = z3.Int(fresh_name(iname))
        s2.env[iname] = V(INT, i)
        s2.pc.append(z3.And(i >= 0, i <= z3.Length(seq.term)))
        for inv in invs:
            s2.pc.append(self.spec_bool(inv, s2))
        se = s2.copy()
        se.pc.append(i == z3.Length(seq.term))
        sb = s2.copy()
        sb.pc.append(i < z3.Length(seq.term))
        elem = V(et, seq.term[i]) if seq.t != STR else V(STR, z3.SubString(seq.term, i, 1))    # iterating a str yields its characters
        if seq.t == CPS:
            # iterating a str yields one-character strings; they are represented by their code point (cps of len 1)
            elem = V(CPS, z3.Unit(seq.term[i]))
            sb.pc.append(z3.And(seq.term[i] >= 0, seq.term[i] <= 0x10FFFF))
        if elem_map is not None:
            elem = elem_map(seq.term[i])
            for f_ in elem_facts(seq.term[i]):
                sb.pc.append(f_)          # each element finditer yields is a match of its pattern at its start offset
        if enum:
            self.assign(s.target.elts[0], V(INT, i), sb)
            self.assign(s.target.elts[1], elem, sb)
        else:
            self.assign(s.target, elem, sb)
        for fact in spec.get('assume_elem', []):
            # facts about every element of the iterated sequence (part of the producing generator's assumed contract)
            sb.pc.append(self.spec_bool(fact, sb))
        result = outs0 + [Outcome('fall', se)]
        for o in self.exec_block(s.body, sb):
            if o.kind in ('fall', 'continue'):
                self.cur_line = s.lineno
                o.state.env[iname] = V(INT, i + 1)
                for inv in invs:
                    self.oblige_raw(o.state, 'loop-preserve', self.spec_bool(inv, o.state), f'loop #{k} invariant preserved: {inv}')
                self.covers.append((s.lineno, f'loop{k}-iter', list(o.state.pc)))
            elif o.kind == 'break':
                result.append(Outcome('fall', o.state))
            else:
                result.append(o)
        return result

    def st_FunctionDef(self, s, st):
        st.env[s.name] = VPy(('nested', s.name))
        return [Outcome('fall', st)]

    def st_Delete(self, s, st):
        for tgt in s.targets:
            if isinstance(tgt, ast.Subscript) and isinstance(tgt.slice, ast.Slice) and tgt.slice.lower is None and tgt.slice.upper is None and isinstance(tgt.value, ast.Name):
                cur = st.env.get(tgt.value.id)
                if isinstance(cur, V) and isinstance(cur.t, TSeq):
                    st.env[tgt.value.id] = V(cur.t, z3.Empty(cur.t.sort()))
                    continue
            raise Unsupported('del form', s)
        return [Outcome('fall', st)]

    # ------------------------------------------------------------------ expressions
    def ev(self, e, st: State):
        m = getattr(self, 'ex_' + type(e).__name__, None)
        if m is None:
            raise Unsupported(f'expression {type(e).__name__}', e)
        return m(e, st)

    def ex_Constant(self, e, st):
        return const_value(e.value)

    def ex_Name(self, e, st):
        if e.id in st.env:
            return st.env[e.id]
        return self.world.resolve_name(self, e.id, e)

    def ex_Tuple(self, e, st):
        items = [self.ev(x, st) for x in e.elts]
        if all(isinstance(i, VPy) for i in items):
            return VPy(tuple(i.obj for i in items))
        return VPy(tuple(items))

    def ex_List(self, e, st):
        items = [self.ev(x, st) for x in e.elts]
        if not items:
            return VPy([])
        return VPy(list(i.obj if isinstance(i, VPy) else i for i in items))

    def ex_Dict(self, e, st):
        d = {}
        for k, v in zip(e.keys, e.values):
            kv, vv = self.ev(k, st), self.ev(v, st)
            if isinstance(kv, V) and z3.is_string_value(kv.term):
                kv = VPy(z3_string_value(kv.term))
            if not isinstance(kv, VPy):
                raise Unsupported('dict literal with a non-constant key', e)
            d[kv.obj] = vv
        return VPy(d)

    def ex_Set(self, e, st):
        return self.ex_Tuple(e, st)

    def ex_JoinedStr(self, e, st):
        if self.world.strmode == 'cps':
            return self.joined_cps(e, st)
        parts = []
        for p in e.values:
            if isinstance(p, ast.Constant):
                parts.append(V(STR, z3.StringVal(p.value)))
            else:
                v = self.ev(p.value, st)
                if p.format_spec is not None or p.conversion != -1:
                    return V(STR, z3.Const(fresh_name('fstr'), z3.StringSort()))
                if isinstance(v, V) and v.t == STR:
                    parts.append(v)
                elif isinstance(v, VPy) and isinstance(v.obj, (str, int)):
                    parts.append(V(STR, z3.StringVal(str(v.obj))))
                elif isinstance(v, V) and v.t == INT:
                    parts.append(V(STR, self.world.int_to_str(v.term)))
                else:
                    return V(STR, z3.Const(fresh_name('fstr'), z3.StringSort()))
        if not parts:
            return V(STR, z3.StringVal(''))
        if len(parts) == 1:
            return parts[0]
        return V(STR, z3.Concat(*[p.term for p in parts]))

    def joined_cps(self, e, st):
        parts = []
        for p in e.values:
            if isinstance(p, ast.Constant):
                parts.append(str_to_cps(p.value))
                continue
            v = self.ev(p.value, st)
            spec = None
            if p.format_spec is not None:
                if len(p.format_spec.values) == 1 and isinstance(p.format_spec.values[0], ast.Constant):
                    spec = p.format_spec.values[0].value
                else:
                    raise Unsupported('computed format spec', e)
            if p.conversion != -1:
                raise Unsupported('f-string conversion', e)
            if spec == 'x' and isinstance(v, V) and v.t == INT:
                parts.append(self.world.hex_cps(v.term))
            elif spec is None and isinstance(v, V) and v.t == CPS:
                parts.append(v.term)
            elif spec is None and isinstance(v, V) and v.t == STR and z3.is_string_value(v.term):
                parts.append(str_to_cps(z3_string_value(v.term)))
            else:
                raise Unsupported(f'f-string part {v!r} with format {spec!r} in code-point mode', e)
        if not parts:
            return V(CPS, z3.Empty(CPS.sort()))
        return V(CPS, parts[0] if len(parts) == 1 else z3.Concat(*parts))

    def ev_fstring_parts(self, e, st):
        for p in e.values:
            if not isinstance(p, ast.Constant):
                self.ev(p.value, st)

    def ex_UnaryOp(self, e, st):
        v = self.ev(e.operand, st)
        if isinstance(e.op, ast.Not):
            return V(BOOL, z3.Not(self.truthy(v, e)))
        if isinstance(v, VPy) and isinstance(v.obj, (int, float)):
            return const_value(-v.obj if isinstance(e.op, ast.USub) else +v.obj)
        if isinstance(e.op, ast.USub) and isinstance(v, V) and v.t in (INT, REAL):
            return V(v.t, -v.term)
        if isinstance(e.op, ast.UAdd) and isinstance(v, V) and v.t in (INT, REAL):
            return v
        raise Unsupported('unary operator', e)

    def ex_BoolOp(self, e, st):
        is_and = isinstance(e.op, ast.And)
        vals = []
        guards_added = 0
        try:
            for i, x in enumerate(e.values):
                v = self.ev(x, st)
                vals.append(v)
                if i < len(e.values) - 1:
                    t = self.truthy(v, x)
                    st.guards.append(t if is_and else z3.Not(t))
                    guards_added += 1
        finally:
            for _ in range(guards_added):
                st.guards.pop()
        # result value: operand-returning semantics; same sort -> ite chain, else truthiness only
        res = vals[-1]
        for v in reversed(vals[:-1]):
            t = self.truthy(v, e)
            m = None
            try:
                a, b = self.unify(v, res, e)
                if isinstance(a, V) and isinstance(b, V) and not a.truth_only and not b.truth_only:
                    m = V(a.t, z3.If(t, b.term, a.term) if is_and else z3.If(t, a.term, b.term))
            except Unsupported:
                m = None
            if m is None:
                tr = self.truthy(res, e)
                m = V(BOOL, z3.And(t, tr) if is_and else z3.Or(t, tr), truth_only=True)
            res = m
        if isinstance(res, V) and res.t == BOOL:
            res = V(BOOL, res.term, truth_only=res.truth_only)
        return res

    def ex_IfExp(self, e, st):
        c = self.truthy(self.ev(e.test, st), e.test)
        cs = z3.simplify(c)
        if z3.is_true(cs):
            return self.ev(e.body, st)
        if z3.is_false(cs):
            return self.ev(e.orelse, st)
        st.guards.append(c)
        try:
            a = self.ev(e.body, st)
        finally:
            st.guards.pop()
        st.guards.append(z3.Not(c))
        try:
            b = self.ev(e.orelse, st)
        finally:
            st.guards.pop()
        m = self.merge_val(c, a, b)
        if m is None:
            if isinstance(a, VPy) and isinstance(b, VPy):
                return VPy(('choice', c, a, b))
            raise Unsupported('conditional expression with arms of unrelated sorts', e)
        return m

    def ex_Compare(self, e, st):
        left = self.ev(e.left, st)
        conj = []
        added = 0
        try:
            for op, rx in zip(e.ops, e.comparators):
                right = self.ev(rx, st)
                c = self.compare(op, left, right, st, e)
                conj.append(c)
                st.guards.append(c)
                added += 1
                left = right
        finally:
            for _ in range(added):
                st.guards.pop()
        return V(BOOL, conj[0] if len(conj) == 1 else z3.And(*conj))

    def compare(self, op, a, b, st, node):
        if isinstance(op, (ast.Eq, ast.NotEq)) and not self.spec_mode:
            hook = getattr(self.world, 'value_eq_hook', None)
            r = hook(self, a, b, node) if hook else None
            if r is not None:
                return r if isinstance(op, ast.Eq) else z3.Not(r)
        if isinstance(op, (ast.Eq, ast.Is)):
            return self.eq(a, b, node)
        if isinstance(op, (ast.NotEq, ast.IsNot)):
            return z3.Not(self.eq(a, b, node))
        if isinstance(op, (ast.In, ast.NotIn)):
            r = self.contains(a, b, st, node)
            return r if isinstance(op, ast.In) else z3.Not(r)
        # ordering
        if isinstance(a, VPy) and isinstance(b, VPy):
            import operator
            f = {ast.Lt: operator.lt, ast.LtE: operator.le, ast.Gt: operator.gt, ast.GtE: operator.ge}[type(op)]
            return z3.BoolVal(f(a.obj, b.obj))
        a, b = self.unify(a, b, node)
        if isinstance(a, (VNone, VPy)) or isinstance(b, (VNone, VPy)):
            raise Unsupported('ordering comparison with None/constant object', node)
        t = a.t
        if isinstance(t, TOpt):
            # ordering on optionals raises TypeError when either is None
            self.may_raise(st, 'TypeError', z3.Or(t.is_none(a.term), t.is_none(b.term)), 'ordering comparison with None')
            a, b, t = V(t.inner, t.val(a.term)), V(t.inner, t.val(b.term)), t.inner
        if t in (INT, REAL):
            x, y = a.term, b.term
            return {ast.Lt: x < y, ast.LtE: x <= y, ast.Gt: x > y, ast.GtE: x >= y}[type(op)]
        if isinstance(t, TSeq) and t.elem in (INT, REAL):
            lt = self.world.lex_lt(t)
            x, y = a.term, b.term
            return {ast.Lt: lt(x, y), ast.LtE: z3.Not(lt(y, x)), ast.Gt: lt(y, x), ast.GtE: z3.Not(lt(x, y))}[type(op)]
        raise Unsupported(f'ordering on {t.name}', node)

    def contains(self, a, b, st, node):
        """a in b"""
        if isinstance(b, VPy) and isinstance(b.obj, (tuple, list, set, frozenset)):
            items = list(b.obj)
            if isinstance(a, VPy):
                return z3.BoolVal(any((a.obj == (i.obj if isinstance(i, VPy) else i)) for i in items if not isinstance(i, (V, VNone))))
            disj = [self.eq(a, i if isinstance(i, (V, VNone, VPy, VObj)) else const_value(i), node) for i in items]
            return z3.Or(*disj) if disj else z3.BoolVal(False)
        if isinstance(b, VPy) and isinstance(b.obj, dict):
            disj = [self.eq(a, const_value(k), node) for k in b.obj]
            return z3.Or(*disj) if disj else z3.BoolVal(False)
        if isinstance(b, V) and isinstance(b.t, TSeq):
            av = self.coerce(a, b.t.elem, node)
            return z3.Contains(b.term, z3.Unit(av.term))
        if isinstance(b, V) and isinstance(b.t, TOpt) and b.t.inner in (STR,) :
            self.may_raise(st, 'TypeError', b.t.is_none(b.term), '`in` on None')
            b = V(b.t.inner, b.t.val(b.term))
        if isinstance(b, V) and b.t == STR:
            av = self.coerce(a, STR, node)
            return z3.Contains(b.term, av.term)
        if isinstance(b, V) and b.t == CPS:
            av = self.coerce(a, CPS, node)
            return z3.Contains(b.term, av.term)
        if isinstance(b, V) and isinstance(b.t, TMap):
            av = self.coerce(a, b.t.k, node)
            return z3.Not(b.t.vopt.is_none(z3.Select(b.term, av.term)))
        raise Unsupported(f'`in` on {b!r}', node)

    def ex_BinOp(self, e, st):
        a = self.ev(e.left, st)
        b = self.ev(e.right, st)
        return self.binop(e.op, a, b, st, e)

    def binop(self, op, a, b, st, node):
        if isinstance(a, VPy) and isinstance(b, VPy):
            import operator
            table = {ast.Add: operator.add, ast.Sub: operator.sub, ast.Mult: operator.mul, ast.BitOr: operator.or_,
                     ast.BitAnd: operator.and_, ast.Mod: operator.mod, ast.FloorDiv: operator.floordiv}
            if type(op) in table:
                try:
                    return const_value(table[type(op)](a.obj, b.obj))
                except Exception:
                    pass
        if isinstance(a, VPy):
            a = const_value(a.obj) if not isinstance(a.obj, (tuple, list, dict, set)) else a
        if isinstance(b, VPy):
            b = const_value(b.obj) if not isinstance(b.obj, (tuple, list, dict, set)) else b
        if isinstance(a, V) and isinstance(b, V) and z3.is_int_value(a.term) and z3.is_int_value(b.term) and a.t == INT and b.t == INT:
            x, y = a.term.as_long(), b.term.as_long()
            import operator
            table = {ast.Add: operator.add, ast.Sub: operator.sub, ast.Mult: operator.mul, ast.BitOr: operator.or_,
                     ast.BitAnd: operator.and_}
            if type(op) in table:
                return const_value(table[type(op)](x, y))
        if isinstance(op, ast.Add):
            if isinstance(a, VPy) and isinstance(a.obj, (list, tuple)) and isinstance(b, V) and isinstance(b.t, TSeq):
                a = self.coerce(a, b.t, node)
            elif isinstance(b, VPy) and isinstance(b.obj, (list, tuple)) and isinstance(a, V) and isinstance(a.t, TSeq):
                b = self.coerce(b, a.t, node)
        if not (isinstance(a, V) and isinstance(b, V)):
            raise Unsupported(f'binary operator on {a!r}, {b!r}', node)
        if isinstance(a.t, TOpt) and a.t.inner in (INT, REAL):
            self.may_raise(st, 'TypeError', a.t.is_none(a.term), 'arithmetic on None')
            a = V(a.t.inner, a.t.val(a.term))
        if isinstance(b.t, TOpt) and b.t.inner in (INT, REAL):
            self.may_raise(st, 'TypeError', b.t.is_none(b.term), 'arithmetic on None')
            b = V(b.t.inner, b.t.val(b.term))
        if isinstance(op, (ast.BitAnd, ast.BitOr, ast.BitXor)):
            if a.t == BOOL and b.t == BOOL:
                return V(BOOL, {ast.BitAnd: z3.And, ast.BitOr: z3.Or, ast.BitXor: z3.Xor}[type(op)](a.term, b.term))
            a, b = self.coerce(a, FLAGS, node), self.coerce(b, FLAGS, node)
            f = {ast.BitAnd: lambda x, y: x & y, ast.BitOr: lambda x, y: x | y, ast.BitXor: lambda x, y: x ^ y}[type(op)]
            return V(FLAGS, f(a.term, b.term))
        if isinstance(op, ast.Add):
            if a.t in (STR, CPS) or b.t in (STR, CPS):
                a, b = self.unify(a, b, node)
                return V(a.t, z3.Concat(a.term, b.term))
            if isinstance(a.t, TSeq) and a.t == b.t:
                return V(a.t, z3.Concat(a.term, b.term))
        if isinstance(op, ast.Mult) and {a.t, b.t} == {STR, INT}:
            # str * int never raises; the product is an uninterpreted function of both (nothing proved here depends on its value)
            sv, nv = (a, b) if a.t == STR else (b, a)
            return V(STR, self.world.ufunc('str.repeat', STR.sort(), INT.sort(), STR.sort())(sv.term, nv.term))
        if a.t == BOOL:
            a = self.coerce(a, INT)
        if b.t == BOOL:
            b = self.coerce(b, INT)
        if a.t in (INT, REAL) and b.t in (INT, REAL):
            a, b = self.unify(a, b, node)
            x, y = a.term, b.term
            if isinstance(op, ast.Add):
                return V(a.t, x + y)
            if isinstance(op, ast.Sub):
                return V(a.t, x - y)
            if isinstance(op, ast.Mult):
                return V(a.t, x * y)
            if a.t == INT and isinstance(op, (ast.Mod, ast.FloorDiv)):
                self.may_raise(st, 'ZeroDivisionError', y == 0, 'division')
                ys = z3.simplify(y)
                if z3.is_int_value(ys) and ys.as_long() > 0:
                    return V(INT, x % y if isinstance(op, ast.Mod) else x / y)
                if isinstance(op, ast.Mod):
                    return V(INT, z3.If(y > 0, x % y, -((-x) % (-y))))
                return V(INT, z3.If(y > 0, x / y, (-x) / (-y)))
        raise Unsupported(f'binary operator {type(op).__name__} on {a.t.name}, {b.t.name}', node)

    def ex_Subscript(self, e, st):
        base = self.ev(e.value, st)
        if isinstance(base, V) and isinstance(base.t, TOpt):
            self.may_raise(st, 'TypeError', base.t.is_none(base.term), 'subscript of None')
            base = V(base.t.inner, base.t.val(base.term))
        if isinstance(e.slice, ast.Slice):
            return self.slice(base, e.slice, st, e)
        idx = self.ev(e.slice, st)
        return self.index(base, idx, st, e)

    def seq_len(self, v, node=None):
        if isinstance(v, VPy) and isinstance(v.obj, (tuple, list, str)):
            return z3.IntVal(len(v.obj))
        if isinstance(v, V) and (isinstance(v.t, TSeq) or v.t in (STR, CPS)):
            return z3.Length(v.term)
        raise Unsupported(f'len() of {v!r}', node)

    def index(self, base, idx, st, node):
        if isinstance(base, VPy) and isinstance(base.obj, (tuple, list)) and isinstance(idx, VPy):
            try:
                x = base.obj[idx.obj]
            except Exception:
                raise Unsupported('constant index out of range', node)
            return x if isinstance(x, (V, VNone, VPy, VObj)) else const_value(x)
        if isinstance(base, VPy) and isinstance(base.obj, dict):
            raise Unsupported('subscript of a constant dict', node)
        if isinstance(base, VPy) and isinstance(base.obj, tuple) and base.obj and base.obj[0] == 'attrs':
            return self.world.value_method(self, base, '__getitem__', [idx], {}, st, node, None)
        for r in getattr(self.world, 'iter_rules', []):
            if isinstance(base, V) and not isinstance(base.t, (TSeq, TMap, TTup)) and base.t not in (STR, CPS):
                conv = r(self, base, st, node)
                if conv is not None:
                    base = conv
                    break
        if isinstance(base, V) and isinstance(base.t, TMap):
            k = self.coerce(idx, base.t.k, node)
            r = z3.Select(base.term, k.term)
            self.may_raise(st, 'KeyError', base.t.vopt.is_none(r), 'dict lookup')
            return V(base.t.v, base.t.vopt.val(r))
        if isinstance(base, V) and isinstance(base.t, TTup):
            if isinstance(idx, V) and idx.t == INT and z3.is_int_value(z3.simplify(idx.term)):
                idx = VPy(z3.simplify(idx.term).as_long())
            if isinstance(idx, VPy) and isinstance(idx.obj, int):
                i = idx.obj
                n = len(base.t.items)
                if -n <= i < n:
                    return V(base.t.items[i % n], base.t.get(base.term, i % n))
            raise Unsupported('tuple index must be a constant in range', node)
        if not (isinstance(base, V) and (isinstance(base.t, TSeq) or base.t in (STR, CPS))):
            raise Unsupported(f'subscript of {base!r}', node)
        i = self.coerce(idx, INT, node).term
        n = z3.Length(base.term)
        self.may_raise(st, 'IndexError', z3.Or(i >= n, i < -n), 'index')
        i2 = z3.simplify(i)
        if z3.is_int_value(i2):
            pos = i2 if i2.as_long() >= 0 else n + i2
        else:
            pos = z3.If(i >= 0, i, n + i)
        if base.t == STR:
            return V(STR, z3.SubString(base.term, pos, 1))
        if base.t == CPS:
            return V(CPS, z3.Unit(base.term[pos]))
        return V(base.t.elem, base.term[pos])

    def slice(self, base, sl, st, node):
        if sl.step is not None:
            raise Unsupported('slice step', node)
        if isinstance(base, VPy) and isinstance(base.obj, (tuple, list, str)):
            lo = self.ev(sl.lower, st) if sl.lower else VPy(None)
            hi = self.ev(sl.upper, st) if sl.upper else VPy(None)
            if isinstance(lo, VPy) and isinstance(hi, VPy):
                return const_value(base.obj[lo.obj:hi.obj]) if isinstance(base.obj, str) else VPy(base.obj[lo.obj:hi.obj])
        if not (isinstance(base, V) and (isinstance(base.t, TSeq) or base.t in (STR, CPS))):
            raise Unsupported(f'slice of {base!r}', node)
        n = z3.Length(base.term)

        def norm(x, default):
            if x is None:
                return default
            v = self.coerce(self.ev(x, st), INT, node).term
            vs = z3.simplify(v)
            if z3.is_int_value(vs):
                k = vs.as_long()
                if k >= 0:
                    return z3.If(vs > n, n, vs)
                return z3.If(n + vs < 0, z3.IntVal(0), n + vs)
            w = z3.If(v < 0, n + v, v)
            return z3.If(w < 0, z3.IntVal(0), z3.If(w > n, n, w))
        lo = norm(sl.lower, z3.IntVal(0))
        hi = norm(sl.upper, n)
        length = z3.If(hi > lo, hi - lo, z3.IntVal(0))
        return V(base.t, z3.SubSeq(base.term, lo, length) if base.t != STR else z3.SubString(base.term, lo, length))

    def ex_Attribute(self, e, st):
        base = self.ev(e.value, st)
        return self.getattr(base, e.attr, st, e)

    def getattr(self, base, attr, st, node):
        if isinstance(base, VObj):
            if (base.name, attr) in st.heap:
                return st.heap[(base.name, attr)]
            if attr in base.rt.mut:
                return st.heap[(base.name, attr)]
            if attr in base.rt.rec.fields:
                return V(base.rt.rec.fields[attr], base.rt.rec.get(base.term, attr))
            m = self.world.method_of(base.rt.cls_qual, attr)
            if m is not None:
                return VPy(('method', m, base))
            raise Unsupported(f'unknown attribute {base.name}.{attr}', node)
        if isinstance(base, VPy):
            o = base.obj
            if isinstance(o, tuple) and len(o) == 2 and o[0] == 'class':
                m = self.world.method_of(o[1], attr)
                if m is not None:
                    return VPy(('method', m, None))
                raise Unsupported(f'unknown class attribute {o[1]}.{attr}', node)
            try:
                x = getattr(o, attr)
            except AttributeError:
                raise Unsupported(f'attribute {attr} of {o!r}', node)
            return self.world.wrap_py(x, f'{base.qual}.{attr}' if base.qual else attr)
        if isinstance(base, VNone):
            self.may_raise(st, 'AttributeError', z3.BoolVal(True), f'attribute .{attr} of None')
            return fresh(INT)
        if isinstance(base, V):
            t = base.t
            if isinstance(t, TOpt):
                self.may_raise(st, 'AttributeError', t.is_none(base.term), f'attribute .{attr} of an Optional that may be None')
                return self.getattr(V(t.inner, t.val(base.term)), attr, st, node)
            if isinstance(t, TRec):
                if attr in t.fields:
                    if t.none is not None:
                        self.may_raise(st, 'AttributeError', base.term == t.none, f'attribute .{attr} of None')
                    return V(t.fields[attr], t.get(base.term, attr))
                raise Unsupported(f'record {t.name} has no field {attr}', node)
            r = self.world.attr_of(self, base, attr, st, node)
            if r is not None:
                return r
        raise Unsupported(f'attribute .{attr} of {base!r}', node)

    def ex_Call(self, e, st):
        return self.world.call(self, e, st)

    def ex_ListComp(self, e, st):
        return self.world.comprehension(self, e, st)

    def ex_GeneratorExp(self, e, st):
        return self.world.comprehension(self, e, st)

    def ex_Lambda(self, e, st):
        raise Unsupported('lambda', e)
