"""A-re validation sweep: translated language vs CPython's re on all strings up to a length over the pattern's
class-boundary alphabet (never counted as proof)."""
from __future__ import annotations
import itertools
import re
import re._constants as sc
import z3
from . import regexc


def boundary_alphabet(tree, extra=''):
    pts = set()

    def walk(seq):
        for op, av in seq:
            if op in (sc.LITERAL, sc.NOT_LITERAL):
                pts.update({av - 1, av, av + 1})
            elif op is sc.IN:
                for o, a in av:
                    if o is sc.LITERAL:
                        pts.update({a - 1, a, a + 1})
                    elif o is sc.RANGE:
                        pts.update({a[0] - 1, a[0], a[1], a[1] + 1})
                    elif o is sc.CATEGORY:
                        pts.update({0x20, 0x30, 0x61, 0x5f, 0x0a})
            elif op is sc.BRANCH:
                for alt in av[1]:
                    walk(alt)
            elif op is sc.SUBPATTERN:
                walk(av[3])
            elif op in (sc.MAX_REPEAT, sc.MIN_REPEAT):
                walk(av[2])
            elif op in (sc.ASSERT, sc.ASSERT_NOT):
                walk(av[1])
            elif op is sc.ANY:
                pts.update({0x0a, 0x61})
    walk(list(tree))
    pts.update(ord(c) for c in extra)
    pts.add(0x0a)
    return sorted(chr(p) for p in pts if 0 <= p <= 0x2FFFF and not (0xD800 <= p <= 0xDFFF))


def member(s, lang):
    r = z3.simplify(z3.InRe(z3.StringVal(s), lang))
    if z3.is_true(r):
        return True
    if z3.is_false(r):
        return False
    sol = z3.Solver()
    sol.add(z3.InRe(z3.StringVal(s), lang))
    return sol.check() == z3.sat


def validate(pattern, flags=0, maxlen=4, max_alpha=7, mode='match', extra=''):
    info = regexc.info(pattern, flags)
    rx = re.compile(pattern, flags)
    alpha = boundary_alphabet(info.tree, extra)
    if len(alpha) > max_alpha:
        # keep literals' own characters first
        step = len(alpha) / max_alpha
        alpha = [alpha[int(i * step)] for i in range(max_alpha)]
    lang = info.match_lang() if mode == 'match' else info.fullmatch_lang()
    n = bad = 0
    examples = []
    for k in range(maxlen + 1):
        for t in itertools.product(alpha, repeat=k):
            s = ''.join(t)
            want = (rx.match(s) if mode == 'match' else rx.fullmatch(s)) is not None
            got = member(s, lang)
            n += 1
            if want != got:
                bad += 1
                if len(examples) < 5:
                    examples.append((s, want, got))
    return dict(pattern=pattern, strings=n, mismatches=bad, examples=examples, alphabet=alpha)
