"""Bounded stand-ins that are not tree/selector sweeps: import orders (C16, exhaustive over a finite set), value semantics
and cache histories (C15), free-running threads (C14)."""
from __future__ import annotations
import itertools
import json
import os
import subprocess
import sys
import time
from concurrent.futures import ThreadPoolExecutor
from .world import REPO

PY = '/venv/bin/python'
IMPORTS = ['import bs4', 'from bs4 import BeautifulSoup', 'import soupsieve', 'import soupsieve.css_match', 'from soupsieve import css_parser',
           'import bs4.element', 'from bs4 import Tag', 'import soupsieve.css_types']
PROBE = r'''
import json, sys
import bs4, soupsieve
from bs4 import BeautifulSoup
m = '<div id="a"><!--c--><p id="b" class="x">t<b id="c"></b></p><p id="d"></p><?pi x?><span id="e"> </span></div>'
out = {}
for q in ('p:empty', 'div > p.x', ':not(:empty)', 'p:-soup-contains("t")', ':root', 'p:nth-child(2)', 'span:empty', 'div:has(> p b)'):
    s = BeautifulSoup(m, 'html.parser')
    out[q] = [[e.get('id') for e in s.select(q)], [e.get('id') for e in soupsieve.select(q, s)]]
print('RESULT ' + json.dumps(out, sort_keys=True))
'''


def _run(code):
    env = dict(os.environ, PYTHONPATH=REPO, PYTHONDONTWRITEBYTECODE='1')
    p = subprocess.run([PY, '-W', 'always', '-c', code], capture_output=True, text=True, env=env, timeout=120, cwd='/')
    return p.returncode, p.stdout, p.stderr


def import_orders(ctx):
    """Every single import statement and every ordered pair, each in a fresh interpreter, followed by the same selects through
    both APIs: exit status 0, nothing on stdout/stderr before the probe, equal results whatever came first."""
    t0 = time.time()
    seqs = [(a,) for a in IMPORTS] + list(itertools.permutations(IMPORTS, 2))
    if ctx['tier'] != 'quick':
        seqs += [s for s in itertools.permutations(IMPORTS[:5], 3)]
    codes = ['\n'.join(s) + '\nprint("IMPORTED")\n' + PROBE for s in seqs]
    with ThreadPoolExecutor(ctx.get('jobs', 16)) as ex:
        res = list(ex.map(_run, codes))
    fails = []
    ref = None
    for s, (rc, out, err) in zip(seqs, res):
        lines = out.splitlines()
        r = next((ln[7:] for ln in lines if ln.startswith('RESULT ')), None)
        noise = [ln for ln in lines if not ln.startswith('RESULT ') and ln != 'IMPORTED']
        if rc != 0 or err.strip() or noise or r is None:
            fails.append(dict(sequence=list(s), exit=rc, stderr=err.strip()[-400:], stdout_noise=noise[:3]))
            continue
        d = json.loads(r)
        if any(a != b for a, b in d.values()):
            fails.append(dict(sequence=list(s), problem='BeautifulSoup.select and soupsieve.select disagree', results=d))
        if ref is None:
            ref = r
        elif r != ref:
            fails.append(dict(sequence=list(s), problem='results depend on the import order', got=d, reference=json.loads(ref)))
    return dict(name='C16-import-orders', label='bounded (exhaustive over the listed finite set)', evaluations=len(seqs), distinct_nontrivial=len(seqs),
                failures=fails, bound=f'{len(IMPORTS)} import statements: all singles and ordered pairs' + ('' if ctx['tier'] == 'quick' else ' and triples of the first five'),
                exhaustive=True, wall_s=round(time.time() - t0, 2))


def value_semantics(ctx):
    """C15.O6: pickle / copy / deepcopy round trips equal, hash-equal and select the same; equal argument tuples <=> equal objects;
    cache bound, purge, transparency across histories with more patterns than the bound."""
    import copy
    import pickle
    import random
    import warnings
    import soupsieve as sv
    from bs4 import BeautifulSoup
    from . import bounded
    t0 = time.time()
    fails = []
    evals = 0
    doc = BeautifulSoup(bounded.HTML_DOCS['basic'] + bounded.HTML_DOCS['forms'], 'html.parser')
    pats = [q for g in bounded.SELECTORS.values() for q in g]
    compiled = []
    with warnings.catch_warnings():
        warnings.simplefilter('ignore')
        for q in pats:
            try:
                compiled.append((q, sv.compile(q)))
            except (sv.SelectorSyntaxError, NotImplementedError):
                pass
        for q, c in compiled:
            base = [id(e) for e in c.select(doc)]
            for nm, f in (('pickle', lambda x: pickle.loads(pickle.dumps(x))), ('copy', copy.copy), ('deepcopy', copy.deepcopy)):
                evals += 1
                try:
                    d = f(c)
                    if d != c or not (d == c) or hash(d) != hash(c) or [id(e) for e in d.select(doc)] != base:
                        fails.append(dict(kind=f'{nm} round trip', selector=q))
                except Exception as ex:
                    fails.append(dict(kind=f'{nm} raises', selector=q, error=f'{type(ex).__name__}: {ex}'))
            # immutability of every part reachable through public attributes
            stack = [c]
            seen = 0
            while stack and seen < 200:
                o = stack.pop()
                seen += 1
                for slot in getattr(type(o), '__slots__', ()):
                    if slot == '_hash':
                        continue
                    evals += 1
                    saved = getattr(o, slot)
                    try:
                        setattr(o, slot, None)
                        fails.append(dict(kind='setattr succeeded', selector=q, on=type(o).__name__, slot=slot))
                        object.__setattr__(o, slot, saved)
                    except AttributeError:
                        pass
                    try:
                        delattr(o, slot)
                        fails.append(dict(kind='delattr succeeded', selector=q, on=type(o).__name__, slot=slot))
                        object.__setattr__(o, slot, saved)
                    except AttributeError:
                        pass
                    v = getattr(o, slot, None)
                    for x in (v if isinstance(v, tuple) else [v]):
                        if hasattr(type(x), '__slots__') and hasattr(x, '_hash'):
                            stack.append(x)
                try:
                    hash(o)
                except Exception as ex:
                    fails.append(dict(kind='unhashable part', selector=q, on=type(o).__name__, error=str(ex)))
        # equal argument tuples <=> equal objects (maps in any insertion order; flags; custom)
        maps = [{'a': 'urn:a', 'b': 'urn:b', 'c': 'urn:c'}, {'a': 'urn:a', 'b': 'urn:x', 'c': 'urn:c'}]
        customs = [{':--h': 'h1, h2', ':--p': 'p.x'}, {':--h': 'h1', ':--p': 'p.x'}]
        keys = []
        for q in ('p', 'a|p', 'p:--h'):
            for mi, m in enumerate(maps):
                for perm in itertools.permutations(m.items()):
                    for ci, cu in enumerate(customs):
                        for cperm in itertools.permutations(cu.items()):
                            for fl in (0, sv.DEBUG * 0):
                                keys.append(((q, mi, ci, fl), q, dict(perm), dict(cperm), fl))
        objs = {}
        sv.purge()
        for key, q, m, cu, fl in keys:
            evals += 1
            c = sv.compile(q, m, fl, custom=cu)
            for k2, c2 in objs.items():
                if (k2 == key) != (c2 == c) or ((k2 == key) and hash(c2) != hash(c)):
                    fails.append(dict(kind='equality/hash vs argument tuples', a=list(map(str, key)), b=list(map(str, k2)), equal=c2 == c, hashes=hash(c2) == hash(c)))
                    break
            objs.setdefault(key, c)
        info = sv.css_parser._cached_css_compile.cache_info()
        if info.currsize != len(objs):
            fails.append(dict(kind='cache holds one entry per distinct argument tuple', entries=info.currsize, distinct=len(objs)))
        # compile(compiled): same object; extra args rejected
        c = sv.compile('p')
        evals += 4
        if sv.compile(c) is not c:
            fails.append(dict(kind='compile(compiled) is not the same object'))
        for kw in (dict(flags=1), dict(namespaces={}), dict(custom={})):
            try:
                sv.compile(c, **kw)
                fails.append(dict(kind='compile(compiled, extra) accepted', extra=list(kw)))
            except ValueError:
                pass
        # cache bound / purge / transparency over a history with more patterns than the bound
        rnd = random.Random(ctx['seed'])
        sv.purge()
        n = 650 if ctx['tier'] == 'quick' else 2000
        hist = [f'p.c{rnd.randrange(n)}' if rnd.random() < .8 else 'PURGE' for _ in range(n * 2)]
        for h in hist:
            evals += 1
            if h == 'PURGE':
                sv.purge()
                if sv.css_parser._cached_css_compile.cache_info().currsize != 0:
                    fails.append(dict(kind='purge did not empty the cache'))
                continue
            c = sv.compile(h)
            fresh = sv.css_parser._cached_css_compile.__wrapped__(h, None, None, 0)
            if c != fresh or hash(c) != hash(fresh):
                fails.append(dict(kind='compile differs from a fresh parse', pattern=h))
                break
            if sv.css_parser._cached_css_compile.cache_info().currsize > 500:
                fails.append(dict(kind='cache exceeds its bound', size=sv.css_parser._cached_css_compile.cache_info().currsize))
                break
        sv.purge()
    return dict(name='C15-value-semantics', label='bounded', evaluations=evals, distinct_nontrivial=len(compiled) + len(objs), failures=fails[:20],
                bound=f'{len(compiled)} compiled selectors (all corpus groups) x pickle/copy/deepcopy + attribute freezing; {len(keys)} argument tuples '
                      f'(permuted maps); one seeded history of {len(hist)} compile/purge calls over {n} patterns', exhaustive=False,
                wall_s=round(time.time() - t0, 2))


def threads_free_running(ctx):
    """C14 (exploration only, no control of the schedule): threads compiling and matching concurrently must produce what a serial run produces."""
    import threading
    import warnings
    import soupsieve as sv
    from bs4 import BeautifulSoup
    t0 = time.time()
    pats = [':nth-child(2n+1)', ':lang(en)', ':-soup-contains("x")', ':dir(ltr)', ':nth-of-type(2)', 'p:is(.a, .b)', ':--h', ':not(:--p)']
    custom = {':--h': 'h1, p', ':--p': 'p.x'}
    doc = BeautifulSoup('<div lang="en"><p class="a x">x</p><p>y</p><h1>z</h1></div>', 'html.parser')
    sv.purge()
    want = {}
    with warnings.catch_warnings():
        warnings.simplefilter('ignore')
        for p in pats:
            c = sv.compile(p, custom=custom)
            want[p] = (c.selectors, [id(e) for e in c.select(doc)])
        sv.purge()
        errs = []
        rounds = 150 if ctx['tier'] == 'quick' else 1500
        old = sys.getswitchinterval()
        sys.setswitchinterval(1e-6)

        def work(k):
            for i in range(rounds):
                p = pats[(i + k) % len(pats)]
                try:
                    if i % 7 == 0:
                        sv.purge()
                    c = sv.compile(p, custom=dict(custom))
                    if c.selectors != want[p][0] or [id(e) for e in c.select(doc)] != want[p][1]:
                        errs.append(dict(pattern=p, problem='result differs from the serial run'))
                except Exception as ex:
                    errs.append(dict(pattern=p, problem=f'{type(ex).__name__}: {ex}'))
        ths = [threading.Thread(target=work, args=(k,)) for k in range(8)]
        [t.start() for t in ths]
        [t.join() for t in ths]
        sys.setswitchinterval(old)
        sv.purge()
    return dict(name='C14-free-running-threads', label='bounded exploration (schedules are not controlled or enumerated)', evaluations=8 * rounds,
                distinct_nontrivial=len(pats), failures=errs[:10], bound=f'8 threads x {rounds} compile/select calls over {len(pats)} patterns, switch interval 1 us',
                exhaustive=False, wall_s=round(time.time() - t0, 2))


def validate_line_split(ctx):
    """Assumption A-re-finditer of the get_pattern_context proof, validated exhaustively to a length bound: for every string over
    {a, LF, CR} the matches of RE_PATTERN_LINE_SPLIT.finditer are, in order, exactly the line breaks (CRLF as one, else a single LF or
    CR) found by an independent left-to-right scan, followed by one empty match at the end of the string; hence the element facts the
    contract assumes (offsets ordered, line breaks non-empty, the last match empty at len)."""
    import itertools
    import time
    import sys
    from .world import REPO
    if REPO not in sys.path:
        sys.path.insert(0, REPO)
    from soupsieve import util
    t0 = time.time()
    bound = 7 if ctx['tier'] == 'quick' else 10
    fails, n = [], 0
    for L in range(bound + 1):
        for tup in itertools.product('a\n\r', repeat=L):
            s = ''.join(tup)
            n += 1
            spans = [(m.start(0), m.end(0)) for m in util.RE_PATTERN_LINE_SPLIT.finditer(s)]
            ref, i = [], 0
            while i < len(s):
                if s[i] == '\r' and i + 1 < len(s) and s[i + 1] == '\n':
                    ref.append((i, i + 2))
                    i += 2
                elif s[i] in '\r\n':
                    ref.append((i, i + 1))
                    i += 1
                else:
                    i += 1
            ref.append((len(s), len(s)))
            ok = spans == ref and len(spans) >= 1 and all(util.RE_PATTERN_LINE_SPLIT.match(s, a).end(0) == b for a, b in spans)
            if not ok and len(fails) < 5:
                fails.append(dict(string=repr(s), got=spans, expected=ref))
    return dict(name='A-re-finditer(line split)', evaluations=n, failures=fails, note=f'assumption validation sweep, exhaustive to length {bound} over {{a, LF, CR}} (not proof)',
                wall_s=round(time.time() - t0, 2))
