"""Must-fail battery: canned AST mutations applied in memory to a verified function.  A mutant that still
verifies means the contract (or the engine) is too weak at that point; it is reported, never hidden."""
from __future__ import annotations
import ast
import copy

CMP_SWAP = {ast.Lt: ast.LtE, ast.LtE: ast.Lt, ast.Gt: ast.GtE, ast.GtE: ast.Gt, ast.Eq: ast.NotEq, ast.NotEq: ast.Eq,
            ast.Is: ast.IsNot, ast.IsNot: ast.Is, ast.In: ast.NotIn, ast.NotIn: ast.In}


def points(fnode):
    """Enumerate mutation points as (kind, index) in AST walk order (docstrings/annotations excluded)."""
    pts = []
    # parameter defaults are not part of the body a contract speaks about (the contract quantifies over every argument value)
    # (nor are decorators: e.g. the size of an lru_cache)
    in_defaults = {id(x) for d in fnode.args.defaults + [k for k in fnode.args.kw_defaults if k is not None] + fnode.decorator_list for x in ast.walk(d)}
    # (nor are the bodies of nested functions: they are verified, and mutated, under their own contracts)
    nested = {id(x) for n in ast.walk(fnode) if n is not fnode and isinstance(n, (ast.FunctionDef, ast.Lambda)) for x in ast.walk(n)}
    for i, n in enumerate(ast.walk(fnode)):
        if id(n) in in_defaults or id(n) in nested:
            continue
        if isinstance(n, ast.Compare):
            for j, op in enumerate(n.ops):
                if type(op) in CMP_SWAP:
                    pts.append(('cmp', i, j))
        elif isinstance(n, ast.BoolOp):
            pts.append(('boolop', i, 0))
        elif isinstance(n, ast.UnaryOp) and isinstance(n.op, ast.Not):
            pts.append(('not', i, 0))
        elif isinstance(n, ast.Constant) and isinstance(n.value, int) and not isinstance(n.value, bool):
            pts.append(('const', i, 0))
        elif isinstance(n, (ast.Continue, ast.Break)):
            pts.append(('jump', i, 0))
        elif isinstance(n, ast.If):
            pts.append(('ifneg', i, 0))
    return pts


def apply(fnode, point):
    kind, idx, j = point
    new = copy.deepcopy(fnode)
    nodes = list(ast.walk(new))
    n = nodes[idx]
    desc = ''
    if kind == 'cmp':
        old = type(n.ops[j]).__name__
        n.ops[j] = CMP_SWAP[type(n.ops[j])]()
        desc = f'line {n.lineno}: comparison {old} -> {type(n.ops[j]).__name__}'
    elif kind == 'boolop':
        old = type(n.op).__name__
        n.op = ast.Or() if isinstance(n.op, ast.And) else ast.And()
        desc = f'line {n.lineno}: {old} -> {type(n.op).__name__}'
    elif kind == 'not':
        n.operand = ast.copy_location(ast.UnaryOp(op=ast.Not(), operand=n.operand), n)      # not x  ->  not (not x)
        desc = f'line {n.lineno}: dropped a not'
    elif kind == 'const':
        desc = f'line {n.lineno}: constant {n.value} -> {n.value + 1}'
        n.value = n.value + 1
    elif kind == 'jump':
        desc = f'line {n.lineno}: removed {type(n).__name__.lower()}'
        n.__class__ = ast.Pass
    elif kind == 'ifneg':
        n.test = ast.copy_location(ast.UnaryOp(op=ast.Not(), operand=n.test), n.test)
        desc = f'line {n.lineno}: negated if condition'
    ast.fix_missing_locations(new)
    return new, desc


def select(fnode, seed, count):
    pts = points(fnode)
    if not pts:
        return []
    if count is None or count >= len(pts):
        return pts
    # deterministic spread driven by the seed
    step = max(1, len(pts) // count)
    start = seed % len(pts)
    return [pts[(start + k * step) % len(pts)] for k in range(count)]
