"""Symbolic implementations of the spec vocabulary primitives (spec/prims.py)."""
from __future__ import annotations
import z3
from .types import z3_string_value, INT, BOOL, REAL, STR, CPS, V, VPy
from .sym import Unsupported
from . import regexc


def install(world):
    import spec.prims as P

    def p_fullmatch(eng, args, st, node):
        rx, s = args
        if isinstance(rx, V) and z3.is_string_value(rx.term):
            text = z3_string_value(rx.term)
        elif isinstance(rx, VPy) and isinstance(rx.obj, str):
            text = rx.obj
        else:
            raise Unsupported('fullmatch() needs a constant regex', node)
        info = regexc.info(text, 0)
        sv = eng.coerce(s, STR, node)
        return V(BOOL, z3.InRe(sv.term, info.fullmatch_lang()))

    def p_dec(eng, args, st, node):
        return V(INT, z3.StrToInt(eng.coerce(args[0], STR, node).term))

    def p_fdec(eng, args, st, node):
        f = world.ufunc('float_value', STR.sort(), REAL.sort())
        return V(REAL, f(eng.coerce(args[0], STR, node).term))

    def p_cp(eng, args, st, node):
        return V(CPS, z3.Unit(eng.coerce(args[0], INT, node).term))

    def hex_cps(n):
        """format(n, 'x') as code points: exact for 0 <= n < 256, uninterpreted above."""
        def hd(d):
            return z3.If(d < 10, 0x30 + d, 0x57 + d)
        f = world.ufunc('hexdigits_big', INT.sort(), CPS.sort())
        return z3.If(z3.And(n >= 0, n < 16), z3.Unit(hd(n)),
                     z3.If(z3.And(n >= 16, n < 256), z3.Concat(z3.Unit(hd(n / 16)), z3.Unit(hd(n % 16))), f(n)))
    world.hex_cps = hex_cps

    def p_hexdigits(eng, args, st, node):
        return V(CPS, hex_cps(eng.coerce(args[0], INT, node).term))

    world.add_prim('cp', p_cp, P.cp)
    world.add_prim('hexdigits', p_hexdigits, P.hexdigits)
    world.add_prim('fullmatch', p_fullmatch, P.fullmatch)
    world.add_prim('dec', p_dec, P.dec)
    world.add_prim('fdec', p_fdec, P.fdec)
