"""Symbolic implementations of the spec vocabulary primitives (spec/prims.py)."""
from __future__ import annotations
import z3
from .types import INT, BOOL, REAL, STR, V, VPy
from .sym import Unsupported
from . import regexc


def install(world):
    import spec.prims as P

    def p_fullmatch(eng, args, st, node):
        rx, s = args
        if isinstance(rx, V) and z3.is_string_value(rx.term):
            text = rx.term.as_string()
        elif isinstance(rx, VPy) and isinstance(rx.obj, str):
            text = rx.obj
        else:
            raise Unsupported('fullmatch() needs a constant regex', node)
        info = regexc.info(text, 0)
        sv = eng.coerce(s, STR, node)
        return V(BOOL, z3.InRe(sv.term, info.fullmatch_lang()))

    def p_dec(eng, args, st, node):
        return V(INT, z3.StrToInt(eng.coerce(args[0], STR, node).term))

    def p_fdec(eng, args, st, node):
        f = world.ufunc('float_value', STR.sort(), REAL.sort())
        return V(REAL, f(eng.coerce(args[0], STR, node).term))

    world.add_prim('fullmatch', p_fullmatch, P.fullmatch)
    world.add_prim('dec', p_dec, P.dec)
    world.add_prim('fdec', p_fdec, P.fdec)
