"""Validation sweep of assumption A-ir: every selector structure the parser produces satisfies the well-formedness predicate the matcher
contracts require (`ir_wf_list`, evaluated natively from the same spec text), and is a finite tree of immutable nodes.  Inputs: every
selector of the corpora, every pre-compiled CSS_* list, custom-selector expansions, and every string of the compile fuzz alphabet that
compiles.  Never counted as proof."""
from __future__ import annotations
import time
import warnings


def sweep(ctx):
    import sys
    from .world import REPO
    if REPO not in sys.path:
        sys.path.insert(0, REPO)
    import soupsieve as sv
    from soupsieve import css_parser as cp, css_types as ct
    import spec.css_sem as S
    from . import bounded, bounded_text
    t0 = time.time()
    fails, n = [], 0

    def depth_ok(sl, seen, d=0):
        """finite and acyclic: no list object is reached twice along one path; depth bounded"""
        if d > 200 or id(sl) in seen:
            return False
        seen = seen | {id(sl)}
        for s in sl.selectors:
            if isinstance(s, ct.SelectorNull):
                continue
            for sub in tuple(s.selectors) + (s.relation,) + tuple(x.selectors for x in s.nth):
                if not depth_ok(sub, seen, d + 1):
                    return False
        return True

    def check(label, sl):
        nonlocal n
        n += 1
        try:
            ok = S.ir_wf_list(sl) and depth_ok(sl, frozenset())
        except Exception as ex:
            ok = False
            label = f'{label} ({type(ex).__name__}: {ex})'
        if not ok and len(fails) < 10:
            fails.append(dict(selector=label))

    with warnings.catch_warnings():
        warnings.simplefilter('ignore')
        for name in dir(cp):
            v = getattr(cp, name)
            if name.startswith('CSS_') and isinstance(v, ct.SelectorList):
                check(name, v)
        for g, sels in bounded.SELECTORS.items():
            for q in sels:
                for nsmap in (None, bounded.NS_MAPS.get('svg'), bounded.NS_MAPS.get('default-html')):
                    try:
                        check(q, sv.compile(q, namespaces=nsmap).selectors)
                    except sv.SelectorSyntaxError:
                        pass
        try:
            check('custom', sv.compile(':--a > :--b', custom={':--a': 'div:is(p, :--b)', ':--b': ':nth-child(2 of i):has(> b)'}).selectors)
        except Exception as ex:
            fails.append(dict(selector=f'custom: {type(ex).__name__}'))
        fr = bounded_text.FRAGS
        lim = len(fr) if ctx['tier'] != 'quick' else len(fr)
        for a in fr[:lim]:
            for b in fr:
                s = (a + b)[:bounded_text.MAXLEN]
                try:
                    c = sv.compile(s)
                except Exception:
                    continue
                check(repr(s), c.selectors)
            sv.purge()
    return dict(name='A-ir (parser output is well-formed IR)', evaluations=n, failures=fails,
                note='assumption validation sweep: ir_wf_list and acyclicity on pre-compiled lists, corpus selectors x 3 namespace maps, all compiling 1-2 fragment strings (not proof)',
                wall_s=round(time.time() - t0, 2))
