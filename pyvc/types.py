"""Sorts and symbolic values of pyvc.

Every symbolic value is (type descriptor, z3 term).  Optionals, tuples and unions are z3 datatypes so
that any value can be stored in a sequence, merged with `If`, and passed to an uninterpreted function.
Non-term values (concrete Python objects, mutable records such as `self`) have their own classes.
"""
from __future__ import annotations
import z3

_cache: dict = {}


class T:
    """Type descriptor."""
    name = '?'

    def sort(self):
        raise NotImplementedError

    def truthy(self, term):
        raise NotImplementedError(f'truthiness of {self.name}')

    def __repr__(self):
        return self.name

    def __eq__(self, other):
        return isinstance(other, T) and self.name == other.name

    def __hash__(self):
        return hash(self.name)


class _TInt(T):
    name = 'int'

    def sort(self):
        return z3.IntSort()

    def truthy(self, term):
        return term != 0


class _TBool(T):
    name = 'bool'

    def sort(self):
        return z3.BoolSort()

    def truthy(self, term):
        return term


class _TReal(T):
    name = 'float'

    def sort(self):
        return z3.RealSort()

    def truthy(self, term):
        return term != 0


class _TStr(T):
    """Python str as an SMT string (used for regex reasoning)."""
    name = 'str'

    def sort(self):
        return z3.StringSort()

    def truthy(self, term):
        return z3.Length(term) > 0


class _TCps(T):
    """Python str as a sequence of code points 0..0x10FFFF (used for character loops)."""
    name = 'cps'

    def sort(self):
        return z3.SeqSort(z3.IntSort())

    def truthy(self, term):
        return z3.Length(term) > 0


class _TFlags(T):
    name = 'flags'

    def sort(self):
        return z3.BitVecSort(16)

    def truthy(self, term):
        return term != z3.BitVecVal(0, 16)


class _TNoneT(T):
    name = 'NoneType'

    def sort(self):
        raise TypeError('NoneType has no sort of its own')

    def truthy(self, term):
        return z3.BoolVal(False)


INT, BOOL, REAL, STR, CPS, FLAGS, NONET = _TInt(), _TBool(), _TReal(), _TStr(), _TCps(), _TFlags(), _TNoneT()


class TUnint(T):
    """Uninterpreted sort with an optional distinguished 'none' constant."""

    def __init__(self, name, with_none=False, truthy_fn=None):
        self.name = name
        self._sort = z3.DeclareSort(name)
        self.none = z3.Const(f'{name}.NONE', self._sort) if with_none else None
        self._truthy = truthy_fn

    def sort(self):
        return self._sort

    def truthy(self, term):
        if self._truthy is not None:
            return self._truthy(term)
        if self.none is not None:
            return term != self.none
        return z3.BoolVal(True)


class TOpt(T):
    def __init__(self, inner: T):
        self.inner = inner
        self.name = f'Opt[{inner.name}]'
        key = ('opt', inner.name)
        if key not in _cache:
            # constructor / accessor names are unique per datatype: SMT-LIB printers do not annotate overloaded constructors, and
            # cvc5 (second opinion) rejects `none` when several datatypes declare it
            m = _mangle(inner.name)
            d = z3.Datatype(f'Opt_{m}')
            d.declare(f'none_{m}')
            d.declare(f'some_{m}', (f'val_{m}', inner.sort()))
            _cache[key] = d.create()
        self._dt = _cache[key]

    def sort(self):
        return self._dt

    def is_none(self, term):
        return self._dt.recognizer(0)(term)

    def none(self):
        return self._dt.constructor(0)()

    def some(self, term):
        return self._dt.constructor(1)(term)

    def val_acc(self, term):
        return self._dt.accessor(1, 0)(term)

    def val(self, term):
        # structural shortcut: the payload of  ite(c, some(x), none)  can only be x
        t = term
        if z3.is_app(t) and t.decl().kind() == z3.Z3_OP_ITE:
            c, a, b = t.children()
            if self._is_some(a) and self._is_none_term(b):
                return a.arg(0)
            if self._is_some(b) and self._is_none_term(a):
                return b.arg(0)
        if self._is_some(t):
            return t.arg(0)
        return self.val_acc(term)

    def _is_some(self, t):
        return z3.is_app(t) and t.num_args() == 1 and t.decl().eq(self._dt.constructor(1))

    def _is_none_term(self, t):
        return z3.is_app(t) and t.num_args() == 0 and t.decl().eq(self._dt.constructor(0))

    def truthy(self, term):
        return z3.And(z3.Not(self.is_none(term)), self.inner.truthy(self.val(term)))


class TSeq(T):
    def __init__(self, elem: T):
        self.elem = elem
        self.name = f'Seq[{elem.name}]'

    def sort(self):
        return z3.SeqSort(self.elem.sort())

    def truthy(self, term):
        return z3.Length(term) > 0


class TTup(T):
    def __init__(self, *items: T):
        self.items = tuple(items)
        self.name = 'Tup[' + ','.join(i.name for i in items) + ']'
        key = ('tup', self.name)
        if key not in _cache:
            m = _mangle(self.name)
            d = z3.Datatype('Tup_' + m)
            d.declare(f'mk_{m}', *[(f'f{i}_{m}', t.sort()) for i, t in enumerate(items)])
            _cache[key] = d.create()
        self._dt = _cache[key]

    def sort(self):
        return self._dt

    def mk(self, *terms):
        return self._dt.constructor(0)(*terms)

    def get(self, term, i):
        return self._dt.accessor(0, i)(term)

    def truthy(self, term):
        return z3.BoolVal(len(self.items) > 0)


class TUnion(T):
    """Tagged union  name = alt1(T1) | alt2(T2) | ...  (alternatives may carry no payload: T=None)."""

    def __init__(self, name, alts: dict, truthy_fn=None):
        self.name = name
        self.alts = alts
        d = z3.Datatype(name)
        for a, t in alts.items():
            if t is None:
                d.declare(a)
            else:
                d.declare(a, (f'{a}_v', t.sort()))
        self._dt = d.create()
        self._truthy = truthy_fn

    def sort(self):
        return self._dt

    def is_alt(self, term, a):
        return getattr(self._dt, f'is_{a}')(term)

    def mk(self, a, term=None):
        c = getattr(self._dt, a)
        return c if term is None else c(term)

    def get(self, term, a):
        return getattr(self._dt, f'{a}_v')(term)

    def truthy(self, term):
        if self._truthy is None:
            raise NotImplementedError(f'truthiness of {self.name}')
        return self._truthy(self, term)


class TMap(T):
    """dict / Mapping used only through .get(k) and `k in d`: total map to Opt[V]."""

    def __init__(self, k: T, v: T):
        self.k, self.v = k, v
        self.vopt = TOpt(v)
        self.name = f'Map[{k.name},{v.name}]'

    def sort(self):
        return z3.ArraySort(self.k.sort(), self.vopt.sort())

    def truthy(self, term):
        raise NotImplementedError('truthiness of a map is not modelled')


class TRec(T):
    """Immutable record (IR objects): an uninterpreted sort with one accessor function per field."""

    def __init__(self, name, fields: dict | None = None, with_none=False):
        self.name = name
        self._sort = z3.DeclareSort(name)
        self.fields: dict[str, T] = {}
        self._acc: dict[str, z3.FuncDeclRef] = {}
        self.none = z3.Const(f'{name}.NONE', self._sort) if with_none else None
        for f, t in (fields or {}).items():
            self.add_field(f, t)

    def add_field(self, f, t: T):
        self.fields[f] = t
        self._acc[f] = z3.Function(f'{self.name}.{f}', self._sort, t.sort())

    def sort(self):
        return self._sort

    def get(self, term, f):
        return self._acc[f](term)

    def truthy(self, term):
        return z3.BoolVal(True)


def _mangle(s):
    return ''.join(c if c.isalnum() else '_' for c in s)


# ----------------------------------------------------------------------------------------------------------
# Values

class V:
    """A symbolic value: type + z3 term."""
    __slots__ = ('t', 'term', 'truth_only')

    def __init__(self, t: T, term, truth_only=False):
        self.t = t
        self.term = term
        self.truth_only = truth_only

    def __repr__(self):
        return f'V({self.t.name}, {self.term})'


class VNone:
    """The literal None before it is coerced to an Opt/Node type."""
    t = NONET

    def __repr__(self):
        return 'VNone'


class VPy:
    """A concrete Python object known statically (module, function, constant tuple, regex object, class)."""
    __slots__ = ('obj', 'qual')

    def __init__(self, obj, qual=None):
        self.obj = obj
        self.qual = qual

    def __repr__(self):
        return f'VPy({self.obj!r})'


class VObj:
    """A mutable object (self, a parser's `sel`): immutable part is a term, mutable fields live in state.heap."""
    __slots__ = ('name', 'rt', 'term')

    def __init__(self, name, rt, term):
        self.name = name      # heap key
        self.rt = rt          # ObjType
        self.term = term      # z3 term of the immutable view

    def __repr__(self):
        return f'VObj({self.name})'


class ObjType:
    """Type of a mutable object: immutable fields (through a TRec) + mutable fields (name -> T)."""

    def __init__(self, name, immut: dict, mut: dict, cls_qual=None):
        self.name = name
        self.rec = TRec(name, immut)
        self.mut = mut
        self.cls_qual = cls_qual  # e.g. 'soupsieve.css_match.CSSMatch' for method lookup


def const_value(x):
    """Lift a Python constant to a symbolic value."""
    if x is None:
        return VNone()
    if isinstance(x, bool):
        return V(BOOL, z3.BoolVal(x))
    if isinstance(x, int):
        return V(INT, z3.IntVal(x))
    if isinstance(x, float):
        return V(REAL, z3.RealVal(x))
    if isinstance(x, str):
        return V(STR, z3.StringVal(x))
    return VPy(x)


def z3_string_value(term) -> str:
    """Python string of a z3 string literal (z3 prints non-ASCII characters as \\u{hex})."""
    import re
    return re.sub(r'\\u\{([0-9a-fA-F]+)\}', lambda m: chr(int(m.group(1), 16)), term.as_string())


def str_to_cps(s: str):
    if not s:
        return z3.Empty(z3.SeqSort(z3.IntSort()))
    units = [z3.Unit(z3.IntVal(ord(c))) for c in s]
    return units[0] if len(units) == 1 else z3.Concat(*units)
