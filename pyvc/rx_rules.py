"""Symbolic model of compiled regex objects and match objects, derived from the pattern text (regexc)."""
from __future__ import annotations
import re
import z3
from .types import z3_string_value, T, INT, BOOL, STR, CPS, TOpt, TSeq, V, VNone, VPy, VObj, const_value
from .sym import Unsupported, fresh_name
from . import regexc


class TMatchT(T):
    name = 'Match'

    def __init__(self):
        d = z3.Datatype('Match')
        d.declare('mk_Match', ('pid', z3.IntSort()), ('subj', z3.StringSort()), ('pos', z3.IntSort()))
        self._dt = d.create()

    def sort(self):
        return self._dt

    def truthy(self, term):
        return z3.BoolVal(True)


MATCH = TMatchT()


def _field(term, k):
    """Field k of a Match term without z3.simplify (which rewrites seq.nth inside the arguments into solver-internal forms):
    a constructor application is taken apart syntactically, anything else goes through the accessor."""
    if z3.is_app(term) and term.decl().eq(MATCH._dt.mk_Match):
        return term.arg(k)
    acc = (MATCH._dt.pid, MATCH._dt.subj, MATCH._dt.pos)[k]
    return z3.simplify(acc(term))
OPT_MATCH = TOpt(MATCH)
OPT_STR = TOpt(STR)


class RxWorld:
    def __init__(self, world):
        self.world = world
        self.by_pattern = {}
        self.by_id = {}
        self.grp = z3.Function('rx.group', z3.IntSort(), z3.IntSort(), z3.StringSort(), z3.IntSort(), z3.StringSort())
        self.has = z3.Function('rx.has_group', z3.IntSort(), z3.IntSort(), z3.StringSort(), z3.IntSort(), z3.BoolSort())
        self.end = z3.Function('rx.end', z3.IntSort(), z3.StringSort(), z3.IntSort(), z3.IntSort())
        self.gstart = z3.Function('rx.group_start', z3.IntSort(), z3.IntSort(), z3.StringSort(), z3.IntSort(), z3.IntSort())
        self.subf = z3.Function('rx.sub', z3.IntSort(), z3.StringSort(), z3.StringSort(), z3.StringSort())
        self.sub_cb = z3.Function('rx.sub_callback', z3.IntSort(), z3.StringSort(), z3.StringSort())
        self.findall = z3.Function('rx.findall', z3.IntSort(), z3.StringSort(), z3.SeqSort(z3.StringSort()))
        # start positions of the successive matches finditer() yields (an uninterpreted sequence: what is known of it is stated, as
        # assumptions validated natively, by the contract that iterates it)
        self.starts = z3.Function('rx.finditer_starts', z3.IntSort(), z3.StringSort(), z3.SeqSort(z3.IntSort()))

    def pid(self, pat: re.Pattern):
        key = (pat.pattern, pat.flags)
        if key not in self.by_pattern:
            pid = len(self.by_pattern) + 1
            info = regexc.info(pat.pattern, pat.flags, drop_lookaround=False) if not _has_lookaround(pat) else \
                regexc.info(pat.pattern, pat.flags, drop_lookaround=True)
            self.by_pattern[key] = (pid, info)
            self.by_id[pid] = (pat, info)
        return self.by_pattern[key]

    def do_match(self, eng, pat, subj: V, pos_term, st, node, search=False):
        pid, info = self.pid(pat)
        if info.dropped and not getattr(eng.c, 'allow_overapprox_regex', False):
            raise Unsupported(f'regex {pat.pattern!r} uses look-around (only an over-approximation is available)', node)
        s = subj.term
        tail = s if pos_term is None else z3.SubString(s, pos_term, z3.Length(s) - pos_term)
        pos = z3.IntVal(0) if pos_term is None else pos_term
        if search:
            lang = z3.Concat(z3.Star(regexc.allchar()), info.match_lang())
        else:
            lang = info.match_lang()
        matched = z3.InRe(tail, lang)
        mterm = MATCH._dt.mk_Match(z3.IntVal(pid), s, pos)
        res = V(OPT_MATCH, z3.If(matched, OPT_MATCH.some(mterm), OPT_MATCH.none()))
        if search:
            return res
        facts = []
        e = self.end(z3.IntVal(pid), s, pos)
        facts.append(z3.And(e >= pos, e <= z3.Length(s)))
        if info.end_anchor == 'Z':
            facts.append(e == z3.Length(s))
        if not info.nullable():
            facts.append(e > pos)
        for g, lang_g in info.groups.items():
            gt = self.grp(z3.IntVal(pid), z3.IntVal(g), s, pos)
            ht = self.has(z3.IntVal(pid), z3.IntVal(g), s, pos)
            facts.append(z3.Implies(ht, z3.InRe(gt, lang_g)))
            if g not in info.optional:
                facts.append(ht)
        seq = info.simple_sequence()
        if seq is not None and info.end_anchor == 'Z':
            parts = []
            for kind, payload, w in seq:
                if kind == 'group':
                    parts.append(self.grp(z3.IntVal(pid), z3.IntVal(payload), s, pos))
                else:
                    p = z3.String(fresh_name('rx.part'))
                    facts.append(z3.InRe(p, payload))
                    parts.append(p)
            if parts:
                facts.append(tail == (z3.Concat(*parts) if len(parts) > 1 else parts[0]))
            # explicit positions of the groups (consequences of the decomposition, stated so that the string
            # solver does not have to derive them): offsets from the left while widths are fixed, else from the right
            widths = [w for _, _, w in seq]
            fixed = [w[0] if w[0] == w[1] else None for w in widths]
            n = len(seq)
            tl = z3.Length(tail)
            for i, (kind, payload, w) in enumerate(seq):
                if kind != 'group':
                    continue
                gt = parts[i]
                if all(f is not None for f in fixed[:i]):
                    off = z3.IntVal(sum(fixed[:i]))
                    if fixed[i] is not None:
                        facts.append(gt == z3.SubString(tail, off, fixed[i]))
                    elif all(f is not None for f in fixed[i + 1:]):
                        facts.append(gt == z3.SubString(tail, off, tl - off - sum(fixed[i + 1:])))
                elif all(f is not None for f in fixed[i + 1:]) and fixed[i] is not None:
                    after = sum(fixed[i + 1:])
                    facts.append(gt == z3.SubString(tail, tl - after - fixed[i], fixed[i]))
        guard = z3.And(*st.guards, matched) if st.guards else matched
        for f in facts:
            st.pc.append(z3.Implies(guard, f))
        return res

    def match_facts(self, pid, info, subj, pos):
        """What holds of a match of pattern pid on subj that starts at pos (however it was found): the facts derived from the pattern.
        With look-arounds dropped the group languages are supersets, so the facts still hold of every real match."""
        facts = [z3.And(pos >= 0, pos <= z3.Length(subj))]
        e = self.end(z3.IntVal(pid), subj, pos)
        facts.append(z3.And(e >= pos, e <= z3.Length(subj)))
        if not info.nullable():
            facts.append(e > pos)
        facts.append(z3.InRe(z3.SubString(subj, pos, e - pos), info.lang))
        for g, lang_g in info.groups.items():
            gt = self.grp(z3.IntVal(pid), z3.IntVal(g), subj, pos)
            ht = self.has(z3.IntVal(pid), z3.IntVal(g), subj, pos)
            facts.append(z3.Implies(ht, z3.InRe(gt, lang_g)))
            if g not in info.optional:
                facts.append(ht)
        for grp in getattr(info, 'exclusive', []):
            hs = [self.has(z3.IntVal(pid), z3.IntVal(g), subj, pos) for g in grp]
            facts.append(z3.Or(*hs))
            facts.extend(z3.Not(z3.And(hs[i], hs[j])) for i in range(len(hs)) for j in range(i + 1, len(hs)))
        return facts

    def fresh_match_param(self, eng, name, pattern_qual, st):
        """A parameter that is a match object of a known pattern: fresh subject/position plus the derived match facts."""
        from .replay import resolve
        try:
            pat = resolve(pattern_qual)
        except Exception as ex:
            # the sidecar names a pattern constant the current tree no longer has: the function is then outside what the contracts
            # describe (undecided), not a failure of the engine
            raise Unsupported(f'match pattern {pattern_qual} cannot be resolved on this tree: {type(ex).__name__}: {ex}')
        pid, info = self.pid(pat)
        subj = z3.String(f'{name}.string')
        pos = z3.Int(f'{name}.pos')
        st.pc.append(z3.And(pos >= 0, pos <= z3.Length(subj)))
        tail = z3.SubString(subj, pos, z3.Length(subj) - pos)
        # the callback of re.sub receives matches found by searching: the match starts at pos (no anchoring claims)
        lang = z3.Concat(info.lang, z3.Star(regexc.allchar()))
        st.pc.append(z3.InRe(tail, lang))
        e = self.end(z3.IntVal(pid), subj, pos)
        st.pc.append(z3.And(e >= pos, e <= z3.Length(subj)))
        anyg = []
        for g, lang_g in info.groups.items():
            gt = self.grp(z3.IntVal(pid), z3.IntVal(g), subj, pos)
            ht = self.has(z3.IntVal(pid), z3.IntVal(g), subj, pos)
            st.pc.append(z3.Implies(ht, z3.InRe(gt, lang_g)))
            if g not in info.optional:
                st.pc.append(ht)
            anyg.append(ht)
        for f in self.match_facts(pid, info, subj, pos):
            st.pc.append(f)
        return V(MATCH, MATCH._dt.mk_Match(z3.IntVal(pid), subj, pos))

    def group(self, eng, m: V, g, st, node):
        pidt = _field(m.term, 0)
        if not z3.is_int_value(pidt):
            raise Unsupported('match object of statically unknown pattern', node)
        pid = pidt.as_long()
        pat, info = self.by_id[pid]
        s = _field(m.term, 1)
        pos = _field(m.term, 2)
        if g == 0:
            e = self.end(z3.IntVal(pid), s, pos)
            return V(STR, z3.SubString(s, pos, e - pos))
        try:
            gid = info.group_id(g)
        except KeyError:
            eng.may_raise(st, 'IndexError', z3.BoolVal(True), f'no such group {g!r}')
            return V(STR, z3.StringVal(''))
        gt = self.grp(z3.IntVal(pid), z3.IntVal(gid), s, pos)
        if gid in info.optional:
            ht = self.has(z3.IntVal(pid), z3.IntVal(gid), s, pos)
            return V(OPT_STR, z3.If(ht, OPT_STR.some(gt), OPT_STR.none()))
        return V(STR, gt)


def _has_lookaround(pat):
    import re._constants as sc
    import re._parser as sp

    def walk(seq):
        for op, av in seq:
            if op in (sc.ASSERT, sc.ASSERT_NOT):
                return True
            if op is sc.BRANCH and any(walk(a) for a in av[1]):
                return True
            if op is sc.SUBPATTERN and walk(av[3]):
                return True
            if op in (sc.MAX_REPEAT, sc.MIN_REPEAT) and walk(av[2]):
                return True
        return False
    return walk(list(sp.parse(pat.pattern, pat.flags)))


def install(world):
    rx = RxWorld(world)
    world.rx = rx

    def method_rule(eng, base, attr, args, kwargs, st, node, recv_node):
        if isinstance(base, VPy) and isinstance(base.obj, re.Pattern):
            pat = base.obj
            if attr in ('match', 'search'):
                subj = args[0]
                if isinstance(subj, V) and isinstance(subj.t, TOpt):
                    eng.may_raise(st, 'TypeError', subj.t.is_none(subj.term), f'{attr}() on None')
                    subj = V(subj.t.inner, subj.t.val(subj.term))
                if isinstance(subj, V) and subj.t.name == 'Node':
                    # a NavigableString is a str: the pattern is applied to its text
                    eng.may_raise(st, 'TypeError', z3.Not(eng.world.tree.is_navstr(subj.term)), f'{attr}() on something that is not a string')
                    subj = V(STR, eng.world.tree.text(subj.term))
                subj = eng.coerce(subj, STR, node)
                pos = eng.coerce(args[1], INT, node).term if len(args) > 1 else None
                return rx.do_match(eng, pat, subj, pos, st, node, search=(attr == 'search'))
            if attr == 'sub':
                repl, subj = args[0], eng.coerce(args[1], STR, node)
                pid, info = rx.pid(pat)
                if isinstance(repl, V) and repl.t == STR:
                    return V(STR, rx.subf(z3.IntVal(pid), repl.term, subj.term))
                if isinstance(repl, VPy) and isinstance(repl.obj, tuple) and repl.obj[0] == 'nested':
                    # re.sub(callback, s): the callback is applied to every match of THIS pattern; its contract variant for
                    # this pattern must exist, must be total on such matches and must not raise
                    base_q = f'{eng.c.qual.split("@")[0]}.{repl.obj[1]}'
                    variants = [c for q, c in eng.world.contracts.items() if q.split('@')[0] == base_q and
                                any(_same_pattern(pq, pat) for pq in c.match_params.values())]
                    if not variants:
                        raise Unsupported(f're.sub callback {repl.obj[1]} has no contract variant for pattern {pat.pattern[:30]!r}', node)
                    for c in variants:
                        if c.raises:
                            for exc in c.raises:
                                eng.may_raise(st, exc, z3.Bool(fresh_name('cb.raises')), f'callback {repl.obj[1]}')
                    return V(STR, rx.sub_cb(z3.IntVal(pid), subj.term))
                raise Unsupported('re.sub with a callable replacement', node)
            if attr == 'finditer':
                subj = eng.coerce(args[0], STR, node)
                pid, info = rx.pid(pat)
                # iterated by st_For: element k is the match object of this pattern on this subject starting at starts[k]
                return VPy(('finditer', pid, subj, V(TSeq(INT), rx.starts(z3.IntVal(pid), subj.term))))
            if attr == 'findall':
                subj = eng.coerce(args[0], STR, node)
                pid, info = rx.pid(pat)
                return V(TSeq(STR), rx.findall(z3.IntVal(pid), subj.term))
            raise Unsupported(f'regex method {attr}', node)
        if isinstance(base, V) and base.t == MATCH:
            if attr == 'group':
                g = args[0] if args else const_value(0)
                if isinstance(g, VPy):
                    gv = g.obj
                elif isinstance(g, V) and z3.is_string_value(g.term):
                    gv = z3_string_value(g.term)
                elif isinstance(g, V) and z3.is_int_value(z3.simplify(g.term)):
                    gv = z3.simplify(g.term).as_long()
                else:
                    raise Unsupported('group() with a non-constant argument', node)
                return rx.group(eng, base, gv, st, node)
            if attr in ('start', 'end'):
                g = args[0] if args else const_value(0)
                if not ((isinstance(g, VPy) and g.obj == 0) or (isinstance(g, V) and z3.is_int_value(z3.simplify(g.term)) and z3.simplify(g.term).as_long() == 0)):
                    raise Unsupported(f'match.{attr}() of a group other than 0', node)
                pidt = _field(base.term, 0)
                s = _field(base.term, 1)
                pos = _field(base.term, 2)
                if attr == 'start':
                    return V(INT, pos)
                return V(INT, rx.end(pidt, s, pos))
            raise Unsupported(f'match method {attr}', node)
        return NotImplemented

    world.method_rules.append(method_rule)

    def axiom_rule(world_, formulas):
        return []
    return rx


def _same_pattern(pattern_qual, pat):
    from .replay import resolve
    try:
        p = resolve(pattern_qual)
    except Exception:
        return False
    return p.pattern == pat.pattern and p.flags == pat.flags
