"""pyvc: verification-condition generator for a stated subset of Python (see DESIGN.md section 3)."""
