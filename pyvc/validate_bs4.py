"""Validation sweep of assumption A-bs4 (DESIGN.md 4.3 / 7): every axiom the tree proofs instantiate is evaluated on
every node of real trees (all installed parsers, API-built oddities).  Never counted as proof; a failure means an assumption
is false on this interpreter and is reported as an engine-level error."""
from __future__ import annotations
import time
import warnings


def sweep(ctx):
    import soupsieve  # noqa
    import bs4
    from bs4 import BeautifulSoup
    from . import bounded
    t0 = time.time()
    fails = []
    n_nodes = 0
    n_docs = 0

    def all_nodes(root):
        yield root
        if isinstance(root, bs4.Tag):
            for d in root.descendants:
                yield d

    def check(label, root):
        nonlocal n_nodes
        for n in all_nodes(root):
            n_nodes += 1
            is_tag = isinstance(n, bs4.Tag)
            is_str = isinstance(n, bs4.element.NavigableString)
            if is_tag == is_str:
                fails.append((label, 'a node is a Tag xor a NavigableString', repr(n)[:40]))
            if isinstance(n, bs4.BeautifulSoup) and (not is_tag or n.parent is not None):
                fails.append((label, 'the document object is a Tag without parent', ''))
            if isinstance(n, (bs4.Comment, bs4.CData, bs4.ProcessingInstruction, bs4.Declaration, bs4.Doctype)) and not is_str:
                fails.append((label, 'special kinds are NavigableStrings', type(n).__name__))
            if is_tag:
                if bool(n) is not True:
                    fails.append((label, 'bool(Tag) is True', n.name))
                if len(n) != len(n.contents):
                    fails.append((label, 'len(Tag) == len(contents)', n.name))
                if not isinstance(n.name, str):
                    fails.append((label, 'Tag.name is a str', repr(n.name)))
                keys = [str(k) for k in n.attrs]
                if len(set(keys)) != len(keys):
                    fails.append((label, 'attribute keys are unique strings', n.name))
                for i, c in enumerate(n.contents):
                    if c.parent is not n:
                        fails.append((label, 'parent(contents(p)[i]) is p', n.name))
                    nxt = n.contents[i + 1] if i + 1 < len(n.contents) else None
                    prv = n.contents[i - 1] if i >= 1 else None
                    if c.next_sibling is not nxt or c.previous_sibling is not prv:
                        fails.append((label, 'sibling links are contents index +-1', n.name))
                pre = []

                def walk(t):
                    for c in t.contents:
                        pre.append(c)
                        if isinstance(c, bs4.Tag):
                            walk(c)
                walk(n)
                if [id(x) for x in n.descendants] != [id(x) for x in pre]:
                    fails.append((label, 'descendants is the pre-order flattening', n.name))
                # A-bs4-preorder, as instantiated by the get_descendants proof: for c = D[i]
                D = pre
                pos = {}
                for i, c in enumerate(D):
                    if id(c) in pos:
                        fails.append((label, 'no node occurs twice among descendants', n.name))
                    pos[id(c)] = i
                for i, c in enumerate(D):
                    size = len(list(c.descendants)) if isinstance(c, bs4.Tag) else 0
                    after = i + 1 + size
                    if after > len(D):
                        fails.append((label, "a descendant's subtree lies inside", n.name))
                    if c.next_sibling is not None and not (after < len(D) and D[after] is c.next_sibling):
                        fails.append((label, 'the next sibling follows the subtree immediately', n.name))
                    ld = c
                    while isinstance(ld, bs4.Tag) and ld.contents:
                        ld = ld.contents[-1]
                    ne = ld.next_element
                    if ne is None and after != len(D):
                        fails.append((label, 'no next_element after the last descendant only at the very end', n.name))
                    if ne is not None and pos.get(id(ne), len(D)) != after:
                        fails.append((label, 'next_element of the last descendant is what follows the subtree', n.name))
            else:
                if getattr(n, 'contents', None):
                    fails.append((label, 'strings have no contents', ''))
            if n.parent is not None:
                if not isinstance(n.parent, bs4.Tag) or not any(c is n for c in n.parent.contents):
                    fails.append((label, 'a node is among the contents of its parent (a Tag)', ''))
            else:
                if n.next_sibling is not None or n.previous_sibling is not None:
                    fails.append((label, 'a parentless node has no siblings', ''))
    tier = ctx['tier']
    with warnings.catch_warnings():
        warnings.simplefilter('ignore')
        for label, doc, kind in bounded.make_docs('thorough' if tier != 'quick' else 'quick', ctx['seed']):
            n_docs += 1
            check(label, doc)
        # every parser at least once, also in the quick tier
        for ps in ('html.parser', 'lxml', 'html5lib', 'xml'):
            n_docs += 1
            check('parsers/' + ps, BeautifulSoup(bounded.HTML_DOCS['forms'] if ps != 'xml' else bounded.XML_DOCS['ns'], ps))
        s = BeautifulSoup('<div><p>a</p>b<i></i></div>', 'html.parser')
        p = s.p.extract()
        s.div.insert(0, s.new_string('x'))
        s.div.append(s.new_tag('q'))
        check('api/mutated', s)
        check('api/extracted', p)
    return dict(name='A-bs4-axioms', evaluations=n_nodes, documents=n_docs, failures=[dict(doc=a, axiom=b, detail=c) for a, b, c in fails[:10]],
                note='assumption validation sweep (not proof)', wall_s=round(time.time() - t0, 2))


def single_valued(ctx):
    """Validation of assumption A-bs4-single: no tree builder registered with this bs4 treats any of the attributes the matcher reads as
    one string (lang, dir, type, value, min, max, http-equiv, content) as multi-valued, and parsing stores them as `str` on every corpus
    document.  (A builder configured by the caller with `multi_valued_attributes` for them is outside the domain.)"""
    import time
    import bs4
    from bs4 import builder
    from . import bounded
    t0 = time.time()
    names = {'lang', 'xml:lang', 'dir', 'type', 'value', 'min', 'max', 'http-equiv', 'content'}
    fails, n = [], 0
    for b in builder.builder_registry.builders:
        table = getattr(b, 'DEFAULT_CDATA_LIST_ATTRIBUTES', None) or {}
        for tag, attrs in dict(table).items():
            n += 1
            hit = names & set(attrs)
            if hit:
                fails.append(dict(builder=b.__name__, tag=tag, attributes=sorted(hit)))
    for label, doc, kind in bounded.make_docs(ctx['tier'], ctx['seed']):
        for el in doc.find_all(True):
            for k, v in el.attrs.items():
                if str(k).lower() in names:
                    n += 1
                    if not isinstance(v, str):
                        fails.append(dict(doc=label, element=el.name, attribute=str(k), stored=type(v).__name__))
    return dict(name='A-bs4-single', evaluations=n, failures=fails[:10], note='assumption validation sweep (not proof): builder tables and stored values on the corpora',
                wall_s=round(time.time() - t0, 2))
