"""Function-level API: extract, generate VCs, discharge, report."""
from __future__ import annotations
import importlib
import os
import sys
import time
import traceback
import z3
from . import extract, solve, regexc
from .sym import Engine, Unsupported, reset_fresh
from .world import World, REPO
from . import dsl

HERE = os.path.dirname(os.path.dirname(os.path.abspath(__file__)))
if HERE not in sys.path:
    sys.path.insert(0, HERE)

SPEC_MODULES = ['spec.calendar', 'spec.strings', 'spec.css_sem', 'spec.parser_sem']
CONTRACT_MODULES = ['contracts.inputs', 'contracts.strings', 'contracts.nav', 'contracts.match', 'contracts.lemmas', 'contracts.parser', 'contracts.util']
VOCAB_MODULES = ['pyvc.rx_rules', 'pyvc.prims_sym', 'pyvc.tree']


def build_world():
    w = World()
    for m in VOCAB_MODULES:
        importlib.import_module(m).install(w)
    for m in SPEC_MODULES:
        w.add_spec_module(importlib.import_module(m))
    dsl.CONTRACTS.clear()
    for m in CONTRACT_MODULES:
        mod = importlib.import_module(m)
        importlib.reload(mod) if getattr(mod, '_loaded_once', False) else None
        mod._loaded_once = True
    dsl.apply_object_invariant()
    for c in dsl.CONTRACTS:
        w.add_contract(c)
    return w


def verify_function(world, qual, timeout_ms=5000, cover=True, mutate=None, want_models=False, shard=None, skip=(), stop_on_fail=False):
    """Generate and discharge all VCs of one function. Returns a JSON-able report."""
    t0 = time.time()
    rep = dict(function=qual, status='ok', obligations=[], covers=[])
    if qual.startswith('lemma.'):
        return verify_lemma(world, qual, timeout_ms)
    try:
        info = extract.find_function(qual, REPO)
    except KeyError as ex:
        rep.update(status='missing', error=str(ex))
        return rep
    rep.update(file=os.path.relpath(info.path, REPO), lines=[info.line, info.end_line], ast_hash=info.ast_hash)
    c = world.contracts[qual]
    modname = qual
    # module namespace = real module globals of the defining module
    parts = qual.split('.')
    ns = None
    for i in range(len(parts), 0, -1):
        try:
            ns = vars(world.module('.'.join(parts[:i])))
            break
        except Exception:
            continue
    fnode = info.node
    if mutate is not None:
        fnode = mutate(fnode)
    world.strmode = getattr(c, 'strmode', None) or 'str'
    # spec functions this contract keeps uninterpreted in its own VCs (sound: it only removes facts)
    world.current_opaque = set(getattr(c, 'opaque_specs', ()))
    world._unfold_cache = {}
    world._node_axiom_cache = {}
    world._scan_cache = {}
    reset_fresh()
    eng = Engine(world, c, fnode, ns, cls_qual=info.cls_qual)
    eng.fn_kind = info.kind
    try:
        obs = eng.run()
    except Unsupported as ex:
        rep.update(status='out-of-reach', error=str(ex))
        return rep
    except (NotImplementedError, regexc.RegexUnsupported) as ex:
        # a construct the encoding has no model for (e.g. truthiness of a mapping, a regex anchor in the middle of a pattern):
        # the function is outside the accepted subset, which is 'undecided', never an engine failure
        rep.update(status='out-of-reach', error=f'{type(ex).__name__}: {ex}')
        return rep
    except Exception as ex:
        rep.update(status='engine-error', error=f'{type(ex).__name__}: {ex}', trace=traceback.format_exc())
        return rep
    rep['n_generated'] = len(obs)
    for k, ob in enumerate(obs):
        if shard is not None and k % shard[1] != shard[0]:
            continue
        if any(k == ob.kind and d in ob.desc for k, d in skip):
            # obligation class listed as a known finding: one short attempt; if that does not prove it, it is
            # reported under the finding and never counted as discharged
            r = solve.check(world, ob, timeout_ms=1500, depth=c.unfold, use_cvc5=False, quick_only=True)
            if r['result'] != 'proved':
                rep['obligations'].append(dict(id=ob.id, kind=ob.kind, desc=ob.desc, line=ob.line, result='known-finding',
                                               backend=None, time=r['time'], model=None))
                continue
        # once an obligation of this function (shard) is not discharged the code has probably changed: the rest get 20 s, after three 5 s,
        # which bounds the cost of a run on a changed tree and alters nothing on a tree where everything is discharged
        n_bad = sum(1 for e_ in rep['obligations'] if e_['result'] not in ('proved', 'known-finding'))
        r = solve.check(world, ob, timeout_ms=timeout_ms if n_bad == 0 else min(timeout_ms, 20000 if n_bad < 3 else 5000), depth=c.unfold, prefer_cvc5=getattr(c, 'prefer_cvc5', False))
        entry = dict(id=ob.id, kind=ob.kind, desc=ob.desc, line=ob.line, result=r['result'],
                     backend=r['backend'], time=r['time'], model=r['model'])
        if r.get('second') is not None:
            entry['second'] = r['second']
        if r['result'] == 'refuted' and want_models and r.get('z3model') is not None and mutate is None:
            from . import replay
            try:
                hook = getattr(c, 'replay_hook', None)
                entry['replay'] = hook(world, c, r['z3model']) if hook else replay.replay_scalar(world, c, r['z3model'])
            except replay.CannotConcretize as ex:
                entry['replay'] = dict(status='not-concretizable', reason=str(ex))
            except Exception as ex:
                entry['replay'] = dict(status='replay-error', reason=f'{type(ex).__name__}: {ex}')
            hook = getattr(c, 'search', None)
        rep['obligations'].append(entry)
        if stop_on_fail and entry['result'] != 'proved':
            break
    if cover and (shard is None or shard[0] == 0):
        for line, what, pc in eng.covers:
            r = solve.cover(world, pc)
            rep['covers'].append(dict(line=line, what=what, result=r))
    rep['time'] = round(time.time() - t0, 3)
    return rep


def verify_lemma(world, qual, timeout_ms=5000):
    """A lemma is a contract on an empty body: requires ==> ensures, over the spec vocabulary only."""
    import ast as _ast
    t0 = time.time()
    c = world.contracts[qual]
    src = 'def lemma(' + ', '.join(c.params) + '):\n    pass\n'
    fnode = _ast.parse(src).body[0]
    world.strmode = getattr(c, 'strmode', None) or 'str'
    world.current_opaque = set(getattr(c, 'opaque_specs', ()))
    reset_fresh()
    import spec.css_sem as _ns_mod
    eng = Engine(world, c, fnode, vars(_ns_mod))
    rep = dict(function=qual, status='ok', obligations=[], covers=[], file='(lemma over the spec)', lines=None, ast_hash=None)
    try:
        obs = eng.run()
    except Unsupported as ex:
        rep.update(status='out-of-reach', error=str(ex))
        return rep
    except Exception as ex:
        rep.update(status='engine-error', error=f'{type(ex).__name__}: {ex}', trace=traceback.format_exc())
        return rep
    rep['n_generated'] = len(obs)
    for ob in obs:
        ob.kind = 'lemma'
        r = solve.check(world, ob, timeout_ms=timeout_ms, depth=c.unfold)
        rep['obligations'].append(dict(id=ob.id, kind='lemma', desc=ob.desc, line=0, result=r['result'], backend=r['backend'],
                                       time=r['time'], model=r['model']))
    for line, what, pc in eng.covers:
        rep['covers'].append(dict(line=0, what=what, result=solve.cover(world, pc)))
    rep['time'] = round(time.time() - t0, 3)
    return rep
