"""Regex-derived contracts: Python `re` syntax trees (re._parser) -> SMT regular languages and match-shape facts.

Assumed (A-re): CPython's `re` accepts exactly the translated language for patterns in the translated subset.
Not modelled: ordered choice / greediness (which substring a group takes among several possibilities),
back-references, look-arounds (dropped only when the caller asks for an over-approximation), Unicode case
folding beyond ASCII.
"""
from __future__ import annotations
import re
import re._parser as sre_parse
import re._constants as sc
import z3

MAXCHAR = 0x2FFFF          # z3's character ceiling; code points above it are represented by the top range


class RegexUnsupported(Exception):
    pass


def _ch(c):
    if c > MAXCHAR:
        c = MAXCHAR
    return z3.StringVal(chr(c)) if c < 0xD800 or c > 0xDFFF else z3.StringVal('\\u{%x}' % c)


def _lit(c):
    if 0xD800 <= c <= 0xDFFF or c > 0xFFFF:
        # build through unicode escape syntax understood by z3
        return z3.Re(z3.StringVal(chr(c)))
    return z3.Re(z3.StringVal(chr(c)))


def _range(lo, hi):
    hi = min(hi, MAXCHAR)
    if lo > hi:
        return None
    return z3.Range(chr(lo), chr(hi))


ALLCHAR = None


def allchar():
    return z3.AllChar(z3.ReSort(z3.StringSort()))


def _union(xs):
    xs = [x for x in xs if x is not None]
    if not xs:
        return z3.Empty(z3.ReSort(z3.StringSort()))
    return xs[0] if len(xs) == 1 else z3.Union(*xs)


CATEGORIES = {
    sc.CATEGORY_DIGIT: [(0x30, 0x39)],
    sc.CATEGORY_SPACE: [(9, 13), (28, 32), (0x85, 0x85), (0xA0, 0xA0)],   # ASCII + common; Unicode spaces beyond are A-re
    sc.CATEGORY_WORD: [(0x30, 0x39), (0x41, 0x5A), (0x5F, 0x5F), (0x61, 0x7A)],
}


class Translator:
    def __init__(self, flags=0, drop_lookaround=False, hole=None):
        self.flags = flags
        self.ic = bool(flags & re.I)
        self.dotall = bool(flags & re.S)
        self.drop = drop_lookaround
        self.dropped = 0
        self.groups = {}          # group number -> RegLan of the group's own subpattern
        self.optional = set()     # group numbers that may not participate
        self.hole = hole          # z3 String term substituted for the HOLE marker literal sequence

    def charset_ranges(self, items):
        """Return (negate, [(lo,hi)]) for an IN node."""
        neg = False
        rs = []
        for op, av in items:
            if op is sc.NEGATE:
                neg = True
            elif op is sc.LITERAL:
                rs.append((av, av))
            elif op is sc.RANGE:
                rs.append(av)
            elif op is sc.CATEGORY:
                if av in CATEGORIES:
                    rs.extend(CATEGORIES[av])
                elif av in (sc.CATEGORY_NOT_SPACE, sc.CATEGORY_NOT_DIGIT, sc.CATEGORY_NOT_WORD):
                    base = {sc.CATEGORY_NOT_SPACE: sc.CATEGORY_SPACE, sc.CATEGORY_NOT_DIGIT: sc.CATEGORY_DIGIT,
                            sc.CATEGORY_NOT_WORD: sc.CATEGORY_WORD}[av]
                    rs.extend(complement_ranges(CATEGORIES[base]))
                else:
                    raise RegexUnsupported(f'category {av}')
            else:
                raise RegexUnsupported(f'set item {op}')
        if self.ic:
            extra = []
            for lo, hi in rs:
                for a, b, d in ((0x41, 0x5A, 32), (0x61, 0x7A, -32)):
                    l2, h2 = max(lo, a), min(hi, b)
                    if l2 <= h2:
                        extra.append((l2 + d, h2 + d))
            rs = rs + extra
        return neg, normalize(rs)

    def tr_in(self, items):
        neg, rs = self.charset_ranges(items)
        if neg:
            rs = complement_ranges(rs)
        return _union([_range(lo, hi) for lo, hi in rs])

    def tr_seq(self, seq, at_end_ok=True):
        parts = []
        n = len(seq)
        for i, (op, av) in enumerate(seq):
            last = i == n - 1
            r = self.tr_item(op, av, last and at_end_ok)
            if r is not None:
                parts.append(r)
        if not parts:
            return z3.Re(z3.StringVal(''))
        return parts[0] if len(parts) == 1 else z3.Concat(*parts)

    def tr_item(self, op, av, is_last):
        if op is sc.LITERAL:
            if self.ic and (0x41 <= av <= 0x5A or 0x61 <= av <= 0x7A):
                return z3.Union(_lit(av), _lit(av ^ 0x20))
            return _lit(av)
        if op is sc.NOT_LITERAL:
            return _union([_range(lo, hi) for lo, hi in complement_ranges([(av, av)])])
        if op is sc.ANY:
            if self.dotall:
                return allchar()
            return _union([_range(lo, hi) for lo, hi in complement_ranges([(10, 10)])])
        if op is sc.IN:
            return self.tr_in(av)
        if op is sc.BRANCH:
            return _union([self.tr_seq(alt, is_last) for alt in av[1]])
        if op is sc.SUBPATTERN:
            gid, add, delf, sub = av
            if add or delf:
                raise RegexUnsupported('inline flags')
            r = self.tr_seq(sub, is_last)
            if gid is not None:
                self.groups[gid] = r
            return r
        if op in (sc.MAX_REPEAT, sc.MIN_REPEAT, getattr(sc, 'POSSESSIVE_REPEAT', None)):
            lo, hi, sub = av
            before = set(self.groups)
            r = self.tr_seq(sub, False)
            if lo == 0:
                self.optional |= set(self.groups) - before
            if hi is sc.MAXREPEAT:
                if lo == 0:
                    return z3.Star(r)
                if lo == 1:
                    return z3.Plus(r)
                return z3.Concat(z3.Loop(r, lo, lo), z3.Star(r))
            return z3.Loop(r, lo, hi)
        if op is sc.AT:
            if av in (sc.AT_BEGINNING, sc.AT_BEGINNING_STRING):
                return None    # only meaningful at the start; callers anchor at the start anyway
            if av in (sc.AT_END_STRING, sc.AT_END) and not is_last and self.drop:
                self.dropped += 1      # an end anchor inside the pattern only restricts: dropping it over-approximates
                return None
            if av is sc.AT_END_STRING:
                if not is_last:
                    raise RegexUnsupported(r'\Z not at the end')
                self.end_anchor = 'Z'
                return None
            if av is sc.AT_END:
                if not is_last:
                    raise RegexUnsupported('$ not at the end')
                self.end_anchor = '$'
                return z3.Option(z3.Re(z3.StringVal('\n'))) if not getattr(self, 'dollar_exact', False) else None
            raise RegexUnsupported(f'anchor {av}')
        if op in (sc.ASSERT, sc.ASSERT_NOT):
            if self.drop:
                self.dropped += 1
                return None
            raise RegexUnsupported('look-around')
        if op is sc.ATOMIC_GROUP if hasattr(sc, 'ATOMIC_GROUP') else False:
            return self.tr_seq(av, is_last)
        raise RegexUnsupported(f'regex op {op}')


def normalize(rs):
    rs = sorted((lo, min(hi, MAXCHAR)) for lo, hi in rs if lo <= MAXCHAR)
    out = []
    for lo, hi in rs:
        if out and lo <= out[-1][1] + 1:
            out[-1] = (out[-1][0], max(out[-1][1], hi))
        else:
            out.append((lo, hi))
    return out


def complement_ranges(rs):
    rs = normalize(rs)
    out = []
    cur = 0
    for lo, hi in rs:
        if lo > cur:
            out.append((cur, lo - 1))
        cur = hi + 1
    if cur <= MAXCHAR:
        out.append((cur, MAXCHAR))
    return out


class RegexInfo:
    """Facts derived from one compiled pattern."""

    def __init__(self, pattern: str, flags: int, drop_lookaround=False):
        self.pattern = pattern
        self.flags = flags
        self.tree = sre_parse.parse(pattern, flags)
        self.flags = self.tree.state.flags
        t = Translator(self.flags, drop_lookaround)
        t.end_anchor = None
        self.lang = t.tr_seq(list(self.tree), True)     # language of strings the whole pattern can consume (incl. "$" newline)
        self.groups = t.groups
        self.optional = t.optional
        self.dropped = t.dropped
        self.end_anchor = t.end_anchor
        self.groupindex = dict(self.tree.state.groupdict)
        self.ngroups = self.tree.state.groups - 1
        # branch-level optionality: groups inside a BRANCH alternative may not participate
        self._mark_branch_optional(list(self.tree), False)
        # a pattern that is one alternation whose alternatives are each exactly one capture group: exactly one of them participates
        self.exclusive = []
        items = [(op, av) for op, av in self.tree if op is not sc.AT]
        if len(items) == 1 and items[0][0] is sc.BRANCH:
            gids = []
            for alt in items[0][1][1]:
                alt_items = [(op, av) for op, av in alt if op is not sc.AT]
                if len(alt_items) == 1 and alt_items[0][0] is sc.SUBPATTERN and alt_items[0][1][0] is not None:
                    gids.append(alt_items[0][1][0])
                else:
                    gids = None
                    break
            if gids and len(gids) >= 2:
                self.exclusive.append(tuple(gids))

    def _mark_branch_optional(self, seq, opt):
        for op, av in seq:
            if op is sc.BRANCH:
                for alt in av[1]:
                    self._mark_branch_optional(alt, True)
            elif op is sc.SUBPATTERN:
                gid, _, _, sub = av
                if gid is not None and opt:
                    self.optional.add(gid)
                self._mark_branch_optional(sub, opt)
            elif op in (sc.MAX_REPEAT, sc.MIN_REPEAT):
                lo, hi, sub = av
                self._mark_branch_optional(sub, opt or lo == 0)
            elif op in (sc.ASSERT, sc.ASSERT_NOT):
                self._mark_branch_optional(av[1], True)

    def match_lang(self):
        """Language of subjects s for which pattern.match(s) succeeds (anchored at 0)."""
        if self.end_anchor:
            return self.lang
        return z3.Concat(self.lang, z3.Star(allchar()))

    def fullmatch_lang(self):
        t = Translator(self.flags, False)
        t.end_anchor = None
        t.dollar_exact = True
        return t.tr_seq(list(self.tree), True)

    def group_id(self, g):
        if isinstance(g, str):
            return self.groupindex[g]
        return g

    def nullable(self):
        s = z3.Solver()
        s.add(z3.InRe(z3.StringVal(''), self.lang))
        return s.check() == z3.sat

    def simple_sequence(self):
        """If the pattern is a top-level sequence of group-free pieces and capture groups, return
        [(kind, payload)] with kind in 'lang'|'group'; else None."""
        items = []
        for op, av in self.tree:
            if op is sc.AT:
                continue
            w = sre_parse.SubPattern(self.tree.state, [(op, av)]).getwidth()
            w = (int(w[0]), None if w[1] >= sc.MAXREPEAT else int(w[1]))
            if op is sc.SUBPATTERN and av[0] is not None:
                items.append(('group', av[0], w))
                continue
            if _has_group(op, av):
                return None
            t = Translator(self.flags, False)
            t.end_anchor = None
            items.append(('lang', t.tr_item(op, av, False), w))
        return items


def _has_group(op, av):
    if op is sc.SUBPATTERN:
        return av[0] is not None or any(_has_group(o, a) for o, a in av[3])
    if op is sc.BRANCH:
        return any(_has_group(o, a) for alt in av[1] for o, a in alt)
    if op in (sc.MAX_REPEAT, sc.MIN_REPEAT):
        return any(_has_group(o, a) for o, a in av[2])
    return False


_info_cache = {}


def info(pattern, flags=0, drop_lookaround=False):
    if isinstance(pattern, re.Pattern):
        flags = pattern.flags
        pattern = pattern.pattern
    key = (pattern, flags, drop_lookaround)
    if key not in _info_cache:
        _info_cache[key] = RegexInfo(pattern, flags, drop_lookaround)
    return _info_cache[key]


def template_lang(template: str, flags: int, hole_term, marker='HOLE'):
    """Language of  template % re.escape(value)  with a symbolic `value` (z3 String term)."""
    if template.count('%s') != 1:
        raise RegexUnsupported('template must contain exactly one %s')
    pat = template.replace('%s', re.escape(marker))
    tree = sre_parse.parse(pat, flags)
    t = Translator(tree.state.flags, False)
    t.end_anchor = None
    seq = list(tree)
    mk = [ord(c) for c in marker]

    def subst(seq):
        out = []
        i = 0
        while i < len(seq):
            if all(i + j < len(seq) and seq[i + j][0] is sc.LITERAL and seq[i + j][1] == mk[j] for j in range(len(mk))):
                out.append(('HOLE', None))
                i += len(mk)
            else:
                op, av = seq[i]
                if op is sc.SUBPATTERN:
                    av = (av[0], av[1], av[2], subst(list(av[3])))
                elif op in (sc.MAX_REPEAT, sc.MIN_REPEAT):
                    av = (av[0], av[1], subst(list(av[2])))
                elif op is sc.BRANCH:
                    av = (av[0], [subst(list(a)) for a in av[1]])
                out.append((op, av))
                i += 1
        return out
    seq = subst(seq)
    orig = t.tr_item

    def tr_item(op, av, is_last):
        if op == 'HOLE':
            return z3.Re(hole_term)
        return orig(op, av, is_last)
    t.tr_item = tr_item
    lang = t.tr_seq(seq, True)
    return lang, t
