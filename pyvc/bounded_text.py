"""Bounded stand-ins at the text level (parser side and string functions).  Labelled bounded; never counted as proved."""
from __future__ import annotations
import itertools
import multiprocessing as mp
import os
import random
import re
import subprocess
import sys
import time
import warnings

HERE = os.path.dirname(os.path.dirname(os.path.abspath(__file__)))


def _pool_map(fn, tasks, jobs=16):
    if not tasks:
        return []
    with mp.get_context('fork').Pool(min(jobs, len(tasks))) as pool:
        return pool.map(fn, tasks, chunksize=max(1, len(tasks) // (jobs * 4)))


def res(name, evals, distinct, fails, bound, exhaustive=False, t0=None):
    return dict(name=name, label='bounded', evaluations=evals, distinct_nontrivial=distinct, failures=fails[:20], bound=bound,
                exhaustive=exhaustive, wall_s=round(time.time() - t0, 2) if t0 else None)


# ------------------------------------------------------------------------------------------------ C02: An+B spellings

def nth_spellings(a, b):
    """All accepted spellings of a*n+b (a may be None for a plain integer b)."""
    out = []
    if a is None:
        for sign in ([''] + (['+'] if b >= 0 else [])):
            out.append(f'{sign}{b}')
        return out
    if a in (1, -1):
        heads = ['n', '+n', '1n', '+1n'] if a == 1 else ['-n', '-1n']
    else:
        heads = [f'{a}n'] + ([f'+{a}n'] if a >= 0 else [])
    tails = ['']
    if b != 0:
        s, v = ('+', b) if b > 0 else ('-', -b)
        tails = [f'{s}{v}', f' {s} {v}', f'{s} {v}', f' {s}{v}', f'/**/{s}/**/{v}', f'\n{s}\t{v}', f' /*c*/ {s} /*c*/ {v}', f'{s}0{v}']
    else:
        tails = ['', '+0', ' - 0', '-0']
    for h in heads:
        for t in tails:
            out.append(h + t)
            out.append((h + t).upper())
    return out


def nth_parse(ctx):
    import soupsieve as sv
    t0 = time.time()
    fails = []
    n = 0
    seen = set()
    rng = range(-3, 4) if ctx['tier'] == 'quick' else range(-12, 13)
    for kind, of_type, last in (('nth-child', False, False), ('nth-last-child', False, True), ('nth-of-type', True, False), ('nth-last-of-type', True, True)):
        cases = [(a, b) for a in list(rng) for b in rng] + [(None, b) for b in range(0, 6)]
        for a, b in cases:
            for sp in nth_spellings(a, b):
                for wrap in ('{}', ' {} ', '/**/{}/**/'):
                    q = f':{kind}({wrap.format(sp)})'
                    n += 1
                    try:
                        nth = sv.compile(q).selectors[0].nth[0]
                    except Exception as ex:
                        fails.append(dict(selector=q, error=f'{type(ex).__name__}: {str(ex).splitlines()[0]}'))
                        continue
                    want = (b, False, 0) if a is None else (a, True, b)
                    got = (nth.a, nth.n, nth.b)
                    # `An+B` with a plain integer is stored as (a=B, n=False); both readings must denote the same positions
                    seen.add(want)
                    if got != want or nth.of_type != of_type or nth.last != last:
                        fails.append(dict(selector=q, got=got, expected=want, of_type=nth.of_type, last=nth.last))
    for q, want in ((':nth-child(even)', (2, True, 0)), (':nth-child(ODD)', (2, True, 1)), (':nth-of-type( odd )', (2, True, 1)),
                    (':first-child', [(1, False, 0, False, False)]), (':last-child', [(1, False, 0, False, True)]),
                    (':only-child', [(1, False, 0, False, False), (1, False, 0, False, True)]),
                    (':first-of-type', [(1, False, 0, True, False)]), (':last-of-type', [(1, False, 0, True, True)]),
                    (':only-of-type', [(1, False, 0, True, False), (1, False, 0, True, True)])):
        n += 1
        nths = sv.compile(q).selectors[0].nth
        got = [(x.a, x.n, x.b, x.of_type, x.last) for x in nths]
        if isinstance(want, tuple):
            ok = (nths[0].a, nths[0].n, nths[0].b) == want
        else:
            ok = got == want
        if not ok:
            fails.append(dict(selector=q, got=got, expected=want))
    for q in (':nth-child(2n+1 of p, .x)', ':NTH-CHILD(2N+1 OF p, .x)', ':nth-child( 2n + 1   of   p , .x )', ':nth-child(2n+1/**/of/**/ p, .x)'):
        n += 1
        try:
            c = sv.compile(q).selectors[0].nth[0]
            ref = sv.compile(':nth-child(2n+1 of p, .x)').selectors[0].nth[0]
            if c != ref:
                fails.append(dict(selector=q, problem='differs from the canonical spelling'))
        except sv.SelectorSyntaxError as ex:
            if 'of/**/' not in q:
                fails.append(dict(selector=q, error=str(ex).splitlines()[0]))
    return res('C02-nth-spellings', n, len(seen), fails, f'a, b in {rng.start}..{rng.stop - 1}, every accepted spelling (sign, case, whitespace, comments) x 4 pseudo-classes', t0=t0)


# ------------------------------------------------------------------------------------------------ C06: compile() error types

FRAGS = ['a', 'A', '*', ' ', '  ', '\n', ',', '>', '+', '~', '|', '#', '#a', '.', '.a', '[', ']', '[a]', '[a=', '[a~="', '[a|=', '[a*="', '"]', "'", '"', '=', 'i]', ' i]',
         ':', '::', ':is(', ':not(', ':has(', ':where(', ':nth-child(', ':nth-last-of-type(', ':lang(', ':dir(', ':-soup-contains(', ':contains(', ':--x', ':root', ':hover',
         ':host(', ':current(', ')', '(', 'n', '2n+1', '-n+ 3', ' of ', 'even', 'ltr', 'en', '"x"', 'a(', 'a)', 'a[', 'a\\', '\\', '\\0', '\\110000', '\\d800', '\\ffffff ', '\\41 ',
         '\\\n', '/*', '*/', '/**/', '@', '@page', '&', '$', '%', '\x00', '\x7f', '\x80', '\ufffd', '\U0001F600', '-', '--', '-1', '1', '99', '\r\n', '\f', '\t', '!', '!=', '^=""', '{', '}', ';']
ALLOWED = ('SelectorSyntaxError', 'NotImplementedError')
# parsing time is exponential in the length of unterminated quoted values / value lists (property C07, not applicable here):
# fuzz strings are capped so that this known behaviour cannot stall the other checks
MAXLEN = 14


def _fuzz_chunk(args):
    import soupsieve as sv
    k, n, seed, exhaustive2 = args
    rnd = random.Random(seed * 1000003 + k)
    fails = []
    count = 0
    if exhaustive2:
        combos = [(FRAGS[i], FRAGS[j]) for i in range(k, len(FRAGS), n) for j in range(len(FRAGS))]
        combos += [(FRAGS[i],) for i in range(k, len(FRAGS), n)]
    else:
        combos = [tuple(rnd.choice(FRAGS) for _ in range(rnd.randint(3, 7))) for _ in range(n)]
    with warnings.catch_warnings():
        warnings.simplefilter('ignore')
        for c in combos:
            s = ''.join(c)[:MAXLEN]
            count += 1
            try:
                sv.compile(s)
            except Exception as ex:
                if type(ex).__name__ not in ALLOWED:
                    fails.append(dict(pattern=s, error=f'{type(ex).__name__}: {str(ex)[:120]}'))
            if count % 50 == 0:
                sv.purge()
    return count, fails[:10]


def compile_fuzz(ctx):
    import soupsieve as sv
    t0 = time.time()
    jobs = ctx.get('jobs', 16)
    tasks = [(k, jobs, ctx['seed'], True) for k in range(jobs)]
    per = 1500 if ctx['tier'] == 'quick' else 40000
    tasks += [(k, per, ctx['seed'], False) for k in range(jobs)]
    out = _pool_map(_fuzz_chunk, tasks, jobs)
    fails = [f for _, fs in out for f in fs]
    n = sum(c for c, _ in out)
    # custom maps: malformed names, malformed definitions, cycles (also spelled with capitals/escapes), case collisions
    cases = [({':--a': ':--b', ':--b': ':--a'}, ':--a'), ({':--A': ':--B', ':--B': ':--A'}, ':--A'), ({':--a': 'div:--A'}, ':--A'), ({':--a': ':--\\41'}, ':--a'),
             ({':--a': 'p', ':--A': 'q'}, ':--a'), ({'--a': 'p'}, ':--a'), ({':-a': 'p'}, ':-a'), ({':--a': ''}, ':--a'), ({':--a': ':is('}, ':--a'), ({':--a': 'p >'}, ':--a'),
             ({':--a\n': 'p'}, ':--a'), ({':--a': ':--b'}, ':--a'), ({':--a b': 'p'}, ':--a'), ({':--\\61': 'p'}, ':--a'), ({':--a': ':--a'}, ':--a'), ({':--a': ':not(:--b)', ':--b': ':is(:--a)'}, ':--b'),
             ({':--ok': 'h1, :--OK2', ':--ok2': 'p:--Ok'}, 'x:--ok')]
    for cm_, pat in cases:
        n += 1
        try:
            sv.purge()
            sv.compile(pat, custom=cm_)
        except Exception as ex:
            nm = type(ex).__name__
            if nm in ALLOWED:
                continue
            # (a KeyError for two names that collide after lower-casing is not excused here: it is known finding
            #  C06-custom-duplicate-keyerror, matched by its message in known_findings.json)
            fails.append(dict(pattern=pat, custom=cm_, error=f'{nm}: {str(ex)[:120]}'))
    sv.purge()
    return res('C06-compile-error-types', n, n, fails, f'all strings of 1-2 fragments from a {len(FRAGS)}-fragment alphabet (exhaustive) + {per * jobs} seeded strings of 3-7 fragments; {len(cases)} custom-map cases',
               t0=t0)


# ------------------------------------------------------------------------------------------------ C09: respelling

TRIVIA0 = ['', ' ', '\n', '/**/', '  ', ' /*c*/ ', '/*a*//*b*/', '\t\n ']
TRIVIA1 = [' ', '\n', '  ', ' /**/', '/**/ ', ' /*c*/ ', '\n  ', ' /**/ /**/ ']      # descendant combinator: at least one whitespace
# base selectors as token lists: '_' optional trivia, '__' descendant combinator, ('id', s) identifier, ('kw', s) keyword, ('str', s) value
O, D = '_', '__'
BASES = [
    [('id', 'div'), O, '>', O, ('id', 'p')],
    [('id', 'a'), O, '+', O, ('id', 'b'), O, '~', O, ('id', 'c')],
    [('id', 'a'), D, ('id', 'b')],
    [('id', 'a'), O, ',', O, ('id', 'b')],
    ['.', ('id', 'cls'), '#', ('id', 'Id1')],
    ['[', O, ('id', 'title'), O, '=', O, ('str', 'va lue'), O, ']'],
    ['[', O, ('id', 'data-x'), O, '~=', O, ('str', 'w'), D, ('kc', 'i'), O, ']'],
    ['[', O, ('id', 'type'), O, '^=', O, ('str', 'ab'), D, ('kc', 's'), O, ']'],
    [':', ('kw', 'is'), '(', O, ('id', 'a'), O, ',', O, ('id', 'b'), O, ')'],
    [':', ('kw', 'not'), '(', O, '.', ('id', 'x'), O, ')'],
    [('id', 'p'), ':', ('kw', 'has'), '(', O, '>', O, ('id', 'b'), O, ',', O, ('id', 'i'), O, ')'],
    [':', ('kw', 'nth-child'), '(', O, '2', ('kc', 'n'), O, '+', O, '1', O, ')'],
    [':', ('kw', 'nth-last-of-type'), '(', O, ('kc', 'odd'), O, ')'],
    [':', ('kw', 'nth-child'), '(', O, '-', ('kc', 'n'), O, '+', O, '3', D, ('kc', 'of'), D, ('id', 'p'), O, ')'],
    [':', ('kw', 'lang'), '(', O, ('str', 'en'), O, ',', O, ('str', 'de-DE'), O, ')'],
    [':', ('kw', 'dir'), '(', O, ('kc', 'rtl'), O, ')'],
    [':', ('kw', '-soup-contains'), '(', O, ('str', 'a b'), O, ',', O, ('str', 'c'), O, ')'],
    [':', ('kw', '-soup-contains-own'), '(', O, ('str', 'x'), O, ')'],
    [':', ('kw', 'first-child'), ':', ('kw', 'root')],
    [('id', 'a'), O, '>', O, ('id', 'b'), D, ('id', 'c'), ':', ('kw', 'where'), '(', O, ('id', 'd'), D, ('id', 'e'), O, ')'],
    [('id', 'svg'), '|', ('id', 'circle'), O, ',', O, '*', '|', '*'],
    [('id', 'p'), D, '*', O, '>', O, ('id', 'b')],
    ['*', D, ('id', 'q')],
]


def ident_variants(s, rnd):
    def esc_hex(c, term):
        return '\\%x%s' % (ord(c), term)
    out = [s]
    i = rnd.randrange(len(s))
    c = s[i]
    nxt_hexlike = i + 1 < len(s) and s[i + 1] in '0123456789abcdefABCDEF \t\n'
    out.append(s[:i] + esc_hex(c, ' ') + s[i + 1:])
    out.append(s[:i] + esc_hex(c, '\n') + s[i + 1:])
    # an escape WITHOUT its own terminating whitespace swallows one following whitespace character (css-syntax 4.3.7),
    # so these spellings are only equivalent inside an identifier, before a character that is neither hex nor whitespace
    if not nxt_hexlike and i + 1 < len(s):
        out.append(s[:i] + esc_hex(c, '') + s[i + 1:])
        out.append(s[:i] + '\\%06x' % ord(c) + s[i + 1:])
    else:
        out.append(s[:i] + '\\%06x ' % ord(c) + s[i + 1:])
    if c not in '0123456789abcdefABCDEF' and c not in '\n\r\f':
        out.append(s[:i] + '\\' + c + s[i + 1:])
    return out


def str_variants(s, rnd):
    out = [f'"{s}"', f"'{s}'"]
    if re.fullmatch(r'[A-Za-z_][A-Za-z0-9_-]*', s):
        out.append(s)
        out.extend(ident_variants(s, rnd)[1:3])
    i = rnd.randrange(len(s))
    out.append('"' + s[:i] + '\\%x ' % ord(s[i]) + s[i + 1:] + '"')
    out.append('"' + s[:i] + '\\\n' + s[i:] + '"')
    return out


def kw_variants(s, rnd):
    out = [s, s.upper(), s.capitalize()]
    i = rnd.randrange(len(s))
    if s[i].isalpha():
        out.append(s[:i] + '\\%x ' % ord(s[i].upper()) + s[i + 1:])
        out.append(s[:i] + '\\%x ' % ord(s[i]) + s[i + 1:])
    return out


def kc_variants(s, rnd):
    """An+B keywords, `of`, :dir() arguments and the i/s flags: the property promises case-insensitivity only."""
    return [s, s.upper(), s.capitalize()]


def canonical(tokens):
    out = []
    for t in tokens:
        if t == O:
            continue
        if t == D:
            out.append(' ')
        elif isinstance(t, tuple):
            out.append(f'"{t[1]}"' if t[0] == 'str' else t[1])
        else:
            out.append(t)
    return ''.join(out)


def _respell_chunk(args):
    import soupsieve as sv
    bi, n, seed = args
    rnd = random.Random(seed * 7 + bi)
    base = BASES[bi]
    fails = []
    with warnings.catch_warnings():
        warnings.simplefilter('ignore')
        canon = canonical(base)
        ref = sv.compile(canon).selectors
        count = 0
        for _ in range(n):
            parts = []
            for t in base:
                if t == O:
                    parts.append(rnd.choice(TRIVIA0))
                elif t == D:
                    parts.append(rnd.choice(TRIVIA1))
                elif isinstance(t, tuple):
                    f = {'id': ident_variants, 'str': str_variants, 'kw': kw_variants, 'kc': kc_variants}[t[0]]
                    parts.append(rnd.choice(f(t[1], rnd)))
                else:
                    parts.append(t)
            q = rnd.choice(TRIVIA0) + ''.join(parts) + rnd.choice(TRIVIA0)
            count += 1
            try:
                got = sv.compile(q).selectors
                if got != ref:
                    fails.append(dict(base=canon, respelling=q, problem='compiles to a different structure'))
            except Exception as ex:
                fails.append(dict(base=canon, respelling=q, error=f'{type(ex).__name__}: {str(ex).splitlines()[0][:100]}'))
            if count % 40 == 0:
                sv.purge()
    return count, fails[:6]


def respell(ctx):
    t0 = time.time()
    n = 300 if ctx['tier'] == 'quick' else 6000
    out = _pool_map(_respell_chunk, [(i, n, ctx['seed']) for i in range(len(BASES))], ctx.get('jobs', 16))
    fails = [f for _, fs in out for f in fs]
    return res('C09-respelling', sum(c for c, _ in out), len(BASES), fails,
               f'{len(BASES)} base selectors x {n} seeded respellings each (0-3 trivia units at every optional point, escapes of one identifier/keyword character, '
               f'quote style, case of keywords)', t0=t0)


# ------------------------------------------------------------------------------------------------ C10: escape round trip

def _escape_chunk(args):
    import soupsieve as sv
    from bs4 import BeautifulSoup
    cps = args
    fails = []
    n = 0
    ctx = ['a', '-', '1', '--', '']
    with warnings.catch_warnings():
        warnings.simplefilter('ignore')
        for cp in cps:
            ch = chr(cp)
            for s in (ch, 'a' + ch, '-' + ch, ch + '1', ch + ch, 'a' + ch + 'b', '-' + ch + '-'):
                n += 1
                want = s.replace('\x00', '\ufffd')
                try:
                    e = sv.escape(s)
                    if sv.compile('#' + e).selectors[0].ids != (want,):
                        fails.append(dict(s=ascii(s), form='#', escaped=ascii(e)))
                    if sv.compile('.' + e).selectors[0].classes != (want,):
                        fails.append(dict(s=ascii(s), form='.', escaped=ascii(e)))
                    c = sv.compile('p#' + e + ' > b.' + e + '[a=' + e + ']').selectors
                    if len(c) != 1 or c[0].classes != (want,) or c[0].relation[0].ids != (want,) or c[0].tag.name != 'b' or len(c[0].attributes) != 1 or \
                            c[0].attributes[0].pattern.match(want) is None or c[0].attributes[0].pattern.match(want + 'x') is not None:
                        fails.append(dict(s=ascii(s), form='surrounding selector altered', escaped=ascii(e)))
                except Exception as ex:
                    fails.append(dict(s=ascii(s), error=f'{type(ex).__name__}: {str(ex).splitlines()[0][:80]}'))
            if cp % 64 == 0:
                sv.purge()
    return n, fails[:6]


def escape_roundtrip(ctx):
    t0 = time.time()
    cps = list(range(0, 0x250)) + [0x2000, 0x2028, 0x2029, 0xD7FF, 0xD800, 0xDBFF, 0xDC00, 0xDFFF, 0xE000, 0xFFFD, 0xFFFE, 0xFFFF, 0x10000, 0x1F600, 0x2FFFF, 0x30000, 0x10FFFF]
    if ctx['tier'] != 'quick':
        cps += list(range(0x250, 0x3000, 7))
    jobs = ctx.get('jobs', 16)
    out = _pool_map(_escape_chunk, [cps[i::jobs] for i in range(jobs)], jobs)
    fails = [f for _, fs in out for f in fs]
    return res('C10-escape-round-trip', sum(c for c, _ in out), len(cps), fails,
               f'{len(cps)} code points (all below U+0250, surrogates, noncharacters, astral) x 7 positions/contexts through #id, .class, [a=...] and an enclosing selector', t0=t0)


# ------------------------------------------------------------------------------------------------ C13: RFC 4647 sweep

def _lang_chunk(args):
    import soupsieve as sv
    from soupsieve import css_match as cm
    from spec import css_ref as R
    from bs4 import BeautifulSoup
    ranges, tags = args
    m = cm.CSSMatch(sv.compile('p').selectors, BeautifulSoup('<p></p>', 'html.parser'), None, 0)
    fails = []
    n = 0
    for r in ranges:
        for t in tags:
            n += 1
            want = R.rfc4647(R.strip_wild(r), t)
            if want is None:
                continue
            got = m.extended_language_filter(r, t)
            if bool(got) != bool(want):
                fails.append(dict(range=r, tag=t, got=bool(got), expected=bool(want)))
    return n, fails[:6]


def lang_filter(ctx):
    t0 = time.time()
    subs = ['a', 'bb', 'x', 'en', 'DE']
    k = 3 if ctx['tier'] == 'quick' else 4
    tags = [''] + ['-'.join(t) for n in range(1, k + 1) for t in itertools.product(subs, repeat=n)]
    ranges = [''] + ['-'.join(t) for n in range(1, k + 1) for t in itertools.product(subs + ['*'], repeat=n)]
    jobs = ctx.get('jobs', 16)
    out = _pool_map(_lang_chunk, [(ranges[i::jobs], tags) for i in range(jobs)], jobs)
    fails = [f for _, fs in out for f in fs]
    return res('C13-extended-filtering', sum(c for c, _ in out), len(ranges), fails,
               f'all ranges and tags of up to {k} subtags over {subs} (+ "*" in ranges, + empty): {len(ranges)} x {len(tags)} pairs, exhaustive', exhaustive=True, t0=t0)


# ------------------------------------------------------------------------------------------------ C17: partition laws

def _laws17(args):
    label, tier, seed = args
    import soupsieve as sv
    from . import bounded
    fails = []
    n = 0
    for dlabel, doc, kind in bounded.make_docs(tier, seed, want=[label]):
        if kind == 'xml':
            continue
        def S(q):
            return {id(e) for e in sv.select(q, doc)}
        allel = {id(e) for e in doc.find_all(True)}
        import bs4
        rooted = len([c for c in doc.contents if isinstance(c, bs4.Tag)]) == 1
        carriers = S('button, input:not([type=hidden]), select, textarea, optgroup, option, fieldset') & allel
        laws = [
            (':enabled & :disabled empty', not (S(':enabled') & S(':disabled'))),
            (':enabled | :disabled == form controls', (S(':enabled') | S(':disabled')) == carriers),
            (':required/:optional partition input, select, textarea', not (S(':required') & S(':optional')) and (S(':required') | S(':optional')) == S('input, select, textarea')),
            # "all elements" of an HTML document: elements in the HTML namespace (foreign content such as SVG/MathML in an
            # html5lib tree is neither, as in browsers)
            (':read-write/:read-only partition all HTML elements', not (S(':read-write') & S(':read-only')) and
             (S(':read-write') | S(':read-only')) == {id(e) for e in doc.find_all(True) if e.namespace in (None, 'http://www.w3.org/1999/xhtml')}),
            (':in-range & :out-of-range empty', not (S(':in-range') & S(':out-of-range'))),
            (':link == :any-link', S(':link') == S(':any-link')),
            (':checked subset of :default', S(':checked') <= S(':default')),
            # "each HTML element of a rooted document is exactly one of": the universe is the HTML-namespace elements whose ancestors are
            # HTML-namespace elements too (foreign content - SVG/MathML in an html5lib tree - is outside the property's documents)
            (':dir(ltr) xor :dir(rtl) on HTML elements', not (S(':dir(ltr)') & S(':dir(rtl)')) and
             (S(':dir(ltr)') | S(':dir(rtl)')) >= {id(e) for e in doc.find_all(True) if rooted and all(
                 x.namespace in (None, 'http://www.w3.org/1999/xhtml') for x in [e] + [a for a in e.parents if isinstance(a, bs4.Tag) and a.name != '[document]'])}),
        ]
        for nm, ok in laws:
            n += 1
            if not ok:
                fails.append(dict(law=nm, doc=dlabel))
    return n, fails


def partition_laws(ctx):
    from . import bounded
    t0 = time.time()
    docs = ['forms', 'ranges', 'dir', 'iframe', 'basic', 'identical', 'svg5']
    out = _pool_map(_laws17, [(d, ctx['tier'], ctx['seed']) for d in docs], ctx.get('jobs', 16))
    fails = [f for _, fs in out for f in fs]
    return res('C17-partition-laws', sum(c for c, _ in out), len(docs) * 8, fails, f'8 laws on documents {docs} (html.parser in quick; + lxml, html5lib in thorough)', t0=t0)


# ------------------------------------------------------------------------------------------------ C20: diagnostics

def diag_reference(p, i):
    """line = 1 + number of line breaks wholly before offset i; col = offset within that line + 1 (\\n, \\r\\n and \\r alike)."""
    line, start = 1, 0
    for m in re.finditer(r'\r\n|\n|\r', p):
        if m.end() <= i:
            line += 1
            start = m.end()
    return line, i - start + 1


def diag(ctx):
    import io
    import contextlib
    import soupsieve as sv
    from soupsieve.util import get_pattern_context
    t0 = time.time()
    fails = []
    n = 0
    L = 5 if ctx['tier'] == 'quick' else 7
    for k in range(0, L + 1):
        for t in itertools.product('a\r\n', repeat=k):
            p = ''.join(t)
            for i in range(len(p) + 1):
                n += 1
                ctxt, line, col = get_pattern_context(p, i)
                if (line, col) != diag_reference(p, i):
                    fails.append(dict(pattern=ascii(p), offset=i, got=(line, col), expected=diag_reference(p, i)))
                    continue
                lines = ctxt.split('\n')
                src = re.split(r'\r\n|\n|\r', p)
                carets = [j for j, x in enumerate(lines) if x.strip() == '^']
                body = [x for j, x in enumerate(lines) if j not in carets]
                strip = [x[4:] if len(src) > 1 or x.startswith(('--> ', '    ')) and len(src) > 1 else x for x in body]
                if len(carets) != 1 or lines[carets[0]].index('^') - (4 if len(src) > 1 else 0) != col - 1 + (0) and False:
                    fails.append(dict(pattern=ascii(p), offset=i, problem='caret line', context=ctxt))
                if len(src) > 1 and [x[4:] for x in body] != src:
                    fails.append(dict(pattern=ascii(p), offset=i, problem='context does not reproduce the lines', context=ctxt))
                if len(src) > 1 and (not body[line - 1].startswith('--> ') or carets[0] != line):
                    fails.append(dict(pattern=ascii(p), offset=i, problem='marked line / caret position', context=ctxt))
                if len(carets) == 1:
                    off = lines[carets[0]].index('^') - (4 if len(src) > 1 else 0)
                    linetext = src[line - 1]
                    want_off = min(col - 1, len(linetext))
                    if off != want_off and not (off == col - 1):
                        fails.append(dict(pattern=ascii(p), offset=i, problem=f'caret under column {off + 1}, expected {col}', context=ctxt))
    # every SelectorSyntaxError of invalid patterns carries a position inside the pattern, consistent line/col
    from . import bounded
    bad_pats = []
    rnd = random.Random(ctx['seed'])
    for _ in range(600 if ctx['tier'] == 'quick' else 8000):
        q = ''.join(rnd.choice(FRAGS + ['\n', '\r\n', '\r']) for _ in range(rnd.randint(1, 6)))[:MAXLEN]
        bad_pats.append(q)
    with warnings.catch_warnings():
        warnings.simplefilter('ignore')
        for q in bad_pats:
            try:
                sv.compile(q)
            except sv.SelectorSyntaxError as ex:
                n += 1
                if ex.line is None:
                    continue
                pat = q.replace('\x00', '\ufffd')
                src = re.split(r'\r\n|\n|\r', pat)
                if not (1 <= ex.line <= len(src) and 1 <= ex.col <= len(src[ex.line - 1]) + 2):
                    fails.append(dict(pattern=ascii(q), line=ex.line, col=ex.col, problem='position outside the pattern'))
                if ex.context.count('^') < 1:
                    fails.append(dict(pattern=ascii(q), problem='no caret', context=ex.context))
            except Exception:
                pass
        # DEBUG changes no result
        for q in [s for g in ('core', 'nth', 'html') for s in bounded.SELECTORS[g]][:: (6 if ctx['tier'] == 'quick' else 1)]:
            n += 1
            try:
                a = sv.compile(q)
            except Exception:
                continue
            buf = io.StringIO()
            with contextlib.redirect_stdout(buf):
                sv.purge()
                b = sv.compile(q, flags=sv.DEBUG)
            if a.selectors != b.selectors:
                fails.append(dict(selector=q, problem='DEBUG flag changes the compiled structure'))
        sv.purge()
    return res('C20-diagnostics', n, n, fails, f'get_pattern_context: all strings up to length {L} over {{a, CR, LF}} x all offsets (exhaustive) against the line/column formula; '
               f'{len(bad_pats)} seeded malformed patterns; DEBUG vs non-DEBUG compile', t0=t0)


PRETTY_SNIPPET = r'''
import sys, re, json
sys.path.insert(0, %r)
import soupsieve as sv
from soupsieve.pretty import pretty
pats = json.loads(sys.stdin.read())
bad = []
for q in pats:
    try:
        c = sv.compile(q).selectors
    except Exception:
        continue
    out = pretty(c)
    strip = lambda s: re.sub(r'\s+', '', s)
    if strip(out) != strip(repr(c)):
        bad.append(q)
    print('DONE ' + json.dumps(q), flush=True)
print('BAD ' + json.dumps(bad))
'''


def pretty_sweep(ctx):
    import json
    from . import bounded
    from .world import REPO
    t0 = time.time()
    pats = [q for g in bounded.SELECTORS.values() for q in g] + ['[a=b]', ':nth-child(-n+3)', '[type="x" i]', 'a:nth-last-of-type(-2n - 1)', ':is(a, :not(b > c[d|="e" s]))',
                                                                  ':-soup-contains("(", ")")', '[a="\\"\'"]', ':lang("*-de")', '[a|="x-"]']
    if ctx['tier'] == 'quick':
        pats = pats[::3] + pats[-9:]
    fails = []
    try:
        p = subprocess.run(['/venv/bin/python', '-c', PRETTY_SNIPPET % REPO], input=json.dumps(pats), capture_output=True, text=True,
                           timeout=60 if ctx['tier'] == 'quick' else 600)
        done = [json.loads(ln[5:]) for ln in p.stdout.splitlines() if ln.startswith('DONE ')]
        bad = next((json.loads(ln[4:]) for ln in p.stdout.splitlines() if ln.startswith('BAD ')), None)
        if p.returncode != 0 or bad is None:
            fails.append(dict(problem='pretty() subprocess failed', stderr=p.stderr[-300:], last_done=done[-1:] if done else None))
        for q in bad or []:
            fails.append(dict(selector=q, problem='pretty output differs from repr beyond whitespace'))
    except subprocess.TimeoutExpired as ex:
        out = ex.stdout.decode() if isinstance(ex.stdout, bytes) else (ex.stdout or '')
        done = [ln for ln in out.splitlines() if ln.startswith('DONE ')]
        nxt = pats[len(done)] if len(done) < len(pats) else None
        fails.append(dict(problem='pretty() did not terminate within the time limit', selector=nxt))
    return res('C20-pretty', len(pats), len(pats), fails, f'{len(pats)} compiled selectors (negative An+B, flagged attribute patterns, nested lists), subprocess with a time limit', t0=t0)


# ------------------------------------------------------------------------------------------------ C01.O6 / C11.O4: attribute operators

WSC = ' \t\n\r\f'


def op_spec(op, x, v, fold):
    f = (lambda s: ''.join(chr(ord(c) + 32) if 'A' <= c <= 'Z' else c for c in s)) if fold else (lambda s: s)
    v, x = f(v), f(x)
    if op == '=':
        return v == x
    if op == '!=':
        return v != x
    if op == '^=':
        return x != '' and v.startswith(x)
    if op == '$=':
        return x != '' and v.endswith(x)
    if op == '*=':
        return x != '' and x in v
    if op == '|=':
        return v == x or v.startswith(x + '-')
    if op == '~=':
        return x != '' and not any(c in WSC for c in x) and x in [w for w in re.split('[ \t\n\r\f]+', v) if w != '']
    raise ValueError(op)


def attr_ops(ctx):
    """Selectors 4 section 6: the compiled pattern of [name op value flag] must behave as op_spec on every probe value, and
    the XML pattern of a `type` attribute must be the case-sensitive twin (C11)."""
    import soupsieve as sv
    t0 = time.time()
    fails = []
    n = 0
    values = ['', 'x', 'X', 'ab', 'a b', 'x-y', '-', 'a(', '[', '.*', 'a\\', '^$', 'é', 'K', 'x\n', ' x', 'a|b', '(?i)']
    probes = ['', 'x', 'X', 'x\n', 'xy', 'yx', 'x-y', 'x-', 'a x b', 'a  x', ' x ', 'ab', 'AB', 'a b', 'a(', 'za(z', '[', '.*', 'q', 'a\\', '^$', 'é', 'É', 'K', 'k', '\u212a', 'x\ty', 'a\nx\nb',
              'x y', '-', 'a|b', '(?i)', ' ', 'x\r']
    for name in ('title', 'type', 'TYPE'):
        for op in ('=', '!=', '^=', '$=', '*=', '|=', '~='):
            for val in values:
                for flag in ('', ' i', ' s', ' I'):
                    q = '[%s%s"%s"%s]' % (name, op, val.replace('\\', '\\\\').replace('"', '\\"').replace('\n', '\\a '), flag)
                    n += 1
                    try:
                        sel = sv.compile(q).selectors[0]
                    except Exception as ex:
                        fails.append(dict(selector=q, error=f'{type(ex).__name__}: {str(ex).splitlines()[0][:80]}'))
                        continue
                    neg = op == '!='
                    a = (sel.selectors[0][0].attributes[0] if neg else sel.attributes[0])
                    is_type = name.lower() == 'type'
                    fold_html = flag.strip().lower() == 'i' or (flag == '' and is_type)
                    fold_xml = flag.strip().lower() == 'i'
                    for view, pat, fold in (('html', a.pattern, fold_html), ('xml', a.xml_type_pattern if a.xml_type_pattern else a.pattern, fold_xml)):
                        if is_type and flag == '' and view == 'xml' and a.xml_type_pattern is None:
                            fails.append(dict(selector=q, problem='type attribute without flag has no case-sensitive XML pattern'))
                            break
                        for v in probes:
                            if fold and any(ord(c) > 127 for c in v + val):
                                continue      # Unicode case folding of re.I is outside A-re's ASCII folding
                            want = op_spec('=' if neg else op, val, v, fold)
                            got = pat.match(v) is not None
                            if got != want:
                                fails.append(dict(selector=q, view=view, value=ascii(v), pattern_matches=got, operator_says=want))
                                break
            sv.purge()
    return res('C01-attribute-operators', n, n, fails, f'3 names x 7 operators x {len(values)} values x 4 flags, each compiled pattern against {len(probes)} probe values (HTML and XML views)', t0=t0)


def text_level_laws(ctx):
    """Parser-side composition laws that do not depend on the matcher being right: the same IR must come out of
    equivalent spellings of lists (C01.O9/O10, C05.O5)."""
    import soupsieve as sv
    t0 = time.time()
    fails = []
    n = 0
    A = ['p', '.a', '#b', '[c]', 'p > i', 'a b', 'a + b', ':not(q)', ':is(r, s)', 'x:first-child', '> .a', '~ b', '+ c']
    plain = [a for a in A if a[0] not in '>~+']
    with warnings.catch_warnings():
        warnings.simplefilter('ignore')
        def guarded(fn, law, a, b):
            try:
                fn()
            except Exception as ex:   # a valid selector of the grammar must compile: an exception here is a failure of the law
                fails.append(dict(law=law, A=a, B=b, error=f'{type(ex).__name__}: {str(ex).splitlines()[0][:100]}'))
        for a in plain:
            for b in plain:
                n += 1
                try:
                    la, lb, lab = sv.compile(a).selectors, sv.compile(b).selectors, sv.compile(f'{a}, {b}').selectors
                except Exception as ex:
                    fails.append(dict(law='A, B compiles', A=a, B=b, error=f'{type(ex).__name__}: {str(ex).splitlines()[0][:100]}'))
                    continue
                if lab.selectors != la.selectors + lb.selectors or lab.is_not or lab.is_html:
                    fails.append(dict(law='A, B == alternatives of A ++ alternatives of B', A=a, B=b))
                for kw, is_not in ((':is', False), (':where', False), (':matches', False), (':not', True)):
                    try:
                        inner = sv.compile(f'x{kw}({a}, {b})').selectors[0].selectors[0]
                        ia = sv.compile(f'x{kw}({a})').selectors[0].selectors[0]
                        ib = sv.compile(f'x{kw}({b})').selectors[0].selectors[0]
                    except Exception as ex:
                        fails.append(dict(law=f'{kw}(A, B) compiles', A=a, B=b, error=f'{type(ex).__name__}: {str(ex).splitlines()[0][:100]}'))
                        continue
                    if inner.selectors != ia.selectors + ib.selectors or inner.is_not != is_not or inner.is_html:
                        fails.append(dict(law=f'{kw}(A, B) carries A ++ B', A=a, B=b))
        # :has(): each comma item keeps its own leading combinator (descendant when none is written)
        for a in A:
            for b in A:
                n += 1
                try:
                    hab = sv.compile(f'x:has({a}, {b})').selectors[0].selectors[0]
                    ha = sv.compile(f'x:has({a})').selectors[0].selectors[0]
                    hb = sv.compile(f'x:has({b})').selectors[0].selectors[0]
                except Exception as ex:
                    fails.append(dict(law=':has(A, B) compiles', A=a, B=b, error=f'{type(ex).__name__}: {str(ex).splitlines()[0][:100]}'))
                    continue
                if hab.selectors != ha.selectors + hb.selectors:
                    fails.append(dict(law=':has(A, B) == items of :has(A) ++ items of :has(B)', A=a, B=b))
        # relation chains are frozen right to left: `a > b c` is c with relation b (' ') with relation a ('>')
        for chain in (['a', '>', 'b', ' ', 'c'], ['a', '+', 'b', '~', 'c', '>', 'd'], ['a', ' ', 'b']):
            n += 1
            try:
                s = sv.compile(''.join(x if x != ' ' else ' ' for x in chain)).selectors[0]
            except Exception as ex:
                fails.append(dict(law='relation chain compiles', selector=''.join(chain), error=f'{type(ex).__name__}'))
                continue
            names, rels = chain[0::2], chain[1::2]
            cur = s
            ok = True
            for k in range(len(names) - 1, -1, -1):
                if cur.tag.name != names[k]:
                    ok = False
                if k > 0:
                    if len(cur.relation) != 1 or cur.relation[0].rel_type != rels[k - 1]:
                        ok = False
                        break
                    cur = cur.relation[0]
                else:
                    ok = ok and len(cur.relation) == 0
            if not ok:
                fails.append(dict(law='relation chain frozen right to left', selector=''.join(chain)))
        sv.purge()
    return res('C01-parser-composition', n, n, fails, f'{len(plain)}^2 pairs for lists/:is/:where/:matches/:not, {len(A)}^2 pairs for :has(), 3 relation chains', t0=t0)


# ------------------------------------------------------------------------------------------------ C19.O6 / C13.O4: value lists

def ref_unescape(s, string):
    """css-syntax 4.3.7 on one raw item (reference, independent of css_parser.css_unescape)."""
    out = []
    i = 0
    while i < len(s):
        c = s[i]
        if c != '\\':
            out.append(c)
            i += 1
            continue
        i += 1
        if i >= len(s):
            out.append('�')
            break
        j = i
        while j < len(s) and j - i < 6 and s[j] in '0123456789abcdefABCDEF':
            j += 1
        if j > i:
            cp = int(s[i:j], 16)
            out.append('�' if cp == 0 or cp > 0x10FFFF else chr(cp))
            if s[j:j + 2] == '\r\n':
                j += 2
            elif j < len(s) and s[j] in ' \t\n\r\f':
                j += 1
            i = j
        elif s[i] in '\n\r\f':
            if string:
                i += 2 if s[i:i + 2] == '\r\n' else 1      # escaped newline inside a string: continuation, nothing
            else:
                out.append('\\')                            # not an escape outside strings (cannot occur in a token)
        else:
            out.append(s[i])
            i += 1
    return ''.join(out)


def value_lists(ctx):
    """:-soup-contains() / :lang() store exactly [decode(item) for item in the comma-separated list], each item decoded once."""
    import soupsieve as sv
    t0 = time.time()
    fails = []
    n = 0
    raw_items = [('"aaa"', 'aaa', True), ("'b b'", 'b b', True), ('ccc', 'ccc', False), ('a\\2c b', 'a,b', False), ('"\\5c 41"', '\\41', True), ('"\\\\41"', '\\41', True),
                 ('"x\\"y"', 'x"y', True), ("'it\\'s'", "it's", True), ('"a,b"', 'a,b', True), ('\\61 b', 'ab', False), ('"\\\nq"', 'q', True), ('d\\,e', 'd,e', False),
                 ('"\\110000"', '�', True), ('"(\\29"', '()', True), ('\\"k', '"k', False), ('"\\5c\\5c"', '\\\\', True), ('"\\5c 5c "', '\\5c ', True)]
    seps = [',', ' , ', ',\n', '/**/,/**/', ' ,']
    rnd = random.Random(ctx['seed'])
    combos = [(a,) for a in raw_items] + [(a, b) for a in raw_items for b in raw_items if rnd.random() < (0.25 if ctx['tier'] == 'quick' else 1.0)]
    with warnings.catch_warnings():
        warnings.simplefilter('ignore')
        for kind in (':-soup-contains', ':-soup-contains-own', ':contains', ':lang'):
            for combo in combos:
                sep = rnd.choice(seps)
                q = f'{kind}(' + sep.join(x[0] for x in combo) + ')'
                n += 1
                want = tuple(ref_unescape(x[0][1:-1] if x[2] else x[0], x[2]) for x in combo)
                assert want == tuple(x[1] for x in combo), (combo, want)
                try:
                    s0 = sv.compile(q).selectors[0]
                except Exception as ex:
                    fails.append(dict(selector=q, error=f'{type(ex).__name__}: {str(ex).splitlines()[0][:80]}'))
                    continue
                if kind == ':lang':
                    got = tuple(s0.lang[0].languages)
                    own_ok = True
                else:
                    got = tuple(s0.contains[0].text)
                    own_ok = s0.contains[0].own == (kind == ':-soup-contains-own')
                if got != want or not own_ok:
                    fails.append(dict(selector=q, stored=[ascii(x) for x in got], expected=[ascii(x) for x in want]))
            sv.purge()
    return res('C19-value-lists', n, len(combos), fails, f'{len(raw_items)} raw items (quoted/bare, escaped comma/backslash/quote, continuation, out-of-range escape), singles and seeded pairs, '
               f'5 separators, 4 pseudo-classes', t0=t0)
