"""Mechanical extraction of function ASTs from /repo on every run.

What extraction drops, exactly: comments, docstrings (kept in the AST but executed as no-ops), type
annotations and `# type:` comments, `# pragma`/`# noqa` markers.  Nothing else.
"""
from __future__ import annotations
import ast
import hashlib
import os

_src_cache = {}


class FnInfo:
    def __init__(self, qual, node, path, kind, cls_qual, decorators):
        self.qual = qual
        self.node = node
        self.path = path
        self.kind = kind              # 'function' | 'method' | 'classmethod' | 'staticmethod'
        self.cls_qual = cls_qual
        self.decorators = decorators
        self.line = node.lineno
        self.end_line = node.end_lineno
        self.ast_hash = hashlib.sha256(ast.dump(strip(node)).encode()).hexdigest()[:16]


def strip(node):
    """Normalised copy: docstrings and annotations removed (for the AST hash only)."""
    node = ast.parse(ast.unparse(node)).body[0]
    for n in ast.walk(node):
        if isinstance(n, (ast.FunctionDef, ast.ClassDef)) and n.body and isinstance(n.body[0], ast.Expr) and \
                isinstance(n.body[0].value, ast.Constant) and isinstance(n.body[0].value.value, str):
            n.body = n.body[1:] or [ast.Pass()]
        if isinstance(n, ast.FunctionDef):
            n.returns = None
            for a in n.args.posonlyargs + n.args.args + n.args.kwonlyargs:
                a.annotation = None
    return node


def module_ast(modname, repo):
    path = os.path.join(repo, *modname.split('.')) + '.py'
    if not os.path.exists(path):
        path = os.path.join(repo, *modname.split('.'), '__init__.py')
    key = path
    mtime = os.path.getmtime(path)
    if key not in _src_cache or _src_cache[key][0] != mtime:
        with open(path, encoding='utf8') as f:
            src = f.read()
        _src_cache[key] = (mtime, ast.parse(src, filename=path), src)
    return _src_cache[key][1], path


def module_source(modname, repo):
    module_ast(modname, repo)
    path = os.path.join(repo, *modname.split('.')) + '.py'
    if not os.path.exists(path):
        path = os.path.join(repo, *modname.split('.'), '__init__.py')
    return _src_cache[path][2]


def find_function(qual, repo):
    """qual like soupsieve.css_match.Inputs.validate_day or soupsieve.css_parser.css_unescape.replace"""
    qual = qual.split('@')[0]            # contract variants (same function, different preconditions) share the source
    parts = qual.split('.')
    # longest module prefix that exists
    for i in range(len(parts), 0, -1):
        modname = '.'.join(parts[:i])
        p = os.path.join(repo, *parts[:i])
        if os.path.exists(p + '.py') or os.path.exists(os.path.join(p, '__init__.py')):
            rest = parts[i:]
            break
    else:
        raise KeyError(qual)
    tree, path = module_ast(modname, repo)
    scope = tree
    cls_qual = None
    in_class = False
    for j, name in enumerate(rest):
        found = None
        for n in scope.body:
            if isinstance(n, (ast.FunctionDef, ast.ClassDef, ast.AsyncFunctionDef)) and n.name == name:
                found = n
        if found is None:
            # nested function bodies may define it inside if/while blocks
            for n in ast.walk(scope):
                if isinstance(n, ast.FunctionDef) and n.name == name and n is not scope:
                    found = n
                    break
        if found is None:
            raise KeyError(f'{qual}: {name} not found in {path}')
        if isinstance(found, ast.ClassDef):
            cls_qual = modname + '.' + '.'.join(rest[:j + 1])
            in_class = True
        else:
            if j < len(rest) - 1:
                in_class = False
        scope = found
        last_parent_is_class = isinstance(found, ast.ClassDef)
    if not isinstance(scope, ast.FunctionDef):
        raise KeyError(f'{qual} is not a function')
    decos = [ast.unparse(d) for d in scope.decorator_list]
    parent_is_class = len(rest) >= 2 and cls_qual == modname + '.' + '.'.join(rest[:-1])
    kind = 'function'
    if parent_is_class:
        kind = 'method'
        if 'classmethod' in decos:
            kind = 'classmethod'
        elif 'staticmethod' in decos:
            kind = 'staticmethod'
    return FnInfo(qual, scope, path, kind, cls_qual if parent_is_class else None, decos)
