"""Replaying a refuted obligation on the real code: z3 model -> concrete arguments -> call the real function ->
evaluate the contract's clauses natively (the executable reading of the same spec text)."""
from __future__ import annotations
import importlib
import json
import os
import re
import sys
import traceback
import z3
from .types import INT, BOOL, REAL, STR, CPS, TOpt, TSeq, TTup, V, ObjType


class CannotConcretize(Exception):
    pass


def z3_str(val):
    s = val.as_string()
    # z3 prints non-ASCII as \u{hex}
    return re.sub(r'\\u\{([0-9a-fA-F]+)\}', lambda m: chr(int(m.group(1), 16)), s)


def concretize(model, t, term):
    v = model.eval(term, model_completion=True)
    return from_value(t, v, model)


def from_value(t, v, model):
    if t == INT:
        return v.as_long()
    if t == BOOL:
        return z3.is_true(v)
    if t == REAL:
        return float(v.as_fraction()) if hasattr(v, 'as_fraction') else float(str(v))
    if t == STR:
        if not z3.is_string_value(v):
            raise CannotConcretize(f'string term {v}')
        return z3_str(v)
    if t == CPS:
        items = seq_items(v, model)
        return ''.join(chr(i.as_long()) for i in items)
    if isinstance(t, TOpt):
        if z3.is_true(model.eval(t.is_none(v), model_completion=True)):
            return None
        return from_value(t.inner, model.eval(t.val_acc(v), model_completion=True), model)
    if isinstance(t, TSeq):
        return [from_value(t.elem, x, model) for x in seq_items(v, model)]
    raise CannotConcretize(f'sort {t.name}')


def seq_items(v, model):
    n = model.eval(z3.Length(v), model_completion=True).as_long()
    if n > 10000:
        raise CannotConcretize('sequence too long')
    return [model.eval(v[i], model_completion=True) for i in range(n)]


def resolve(qual):
    parts = qual.split('.')
    for i in range(len(parts), 0, -1):
        try:
            obj = importlib.import_module('.'.join(parts[:i]))
        except ImportError:
            continue
        for p in parts[i:]:
            obj = getattr(obj, p)
        return obj
    raise KeyError(qual)


def spec_namespace(world):
    ns = {}
    import spec.prims as P
    for k, v in vars(P).items():
        if callable(v) and not k.startswith('_'):
            ns[k] = v
    for name, sf in world.specs.items():
        ns[name] = sf.fn
        ns.update({k: v for k, v in sf.module_ns.items() if k.isupper()})
    ns['implies'] = lambda a, b: (not a) or bool(b)
    ns['iff'] = lambda a, b: bool(a) == bool(b)
    ns['ite'] = lambda c, a, b: a if c else b
    ns['truthy'] = bool
    ns['is_none'] = lambda x: x is None
    return ns


def norm(x):
    """Normalise tuples/lists of numbers for comparison between code results and spec results."""
    if isinstance(x, (tuple, list)):
        return [norm(i) for i in x]
    if isinstance(x, bool) or x is None or isinstance(x, str):
        return x
    if isinstance(x, (int, float)):
        return float(x)
    return x


def eval_clause(text, ns, env):
    """Evaluate a contract clause natively. `a == b` at top level is compared after normalisation."""
    import ast
    tree = ast.parse(text.strip(), mode='eval').body
    if isinstance(tree, ast.Compare) and len(tree.ops) == 1 and isinstance(tree.ops[0], ast.Eq):
        a = eval(compile(ast.Expression(tree.left), '<clause>', 'eval'), ns, env)
        b = eval(compile(ast.Expression(tree.comparators[0]), '<clause>', 'eval'), ns, env)
        return norm(a) == norm(b), (a, b)
    r = eval(compile(ast.Expression(tree), '<clause>', 'eval'), ns, env)
    return bool(r), r


def replay_scalar(world, contract, model, fn=None):
    """Concretise all parameters (scalars/strings/optionals/sequences of those), call the real function,
    evaluate requires/ensures natively. Returns a dict describing the outcome."""
    args = {}
    for p, t in contract.params.items():
        if isinstance(t, ObjType):
            raise CannotConcretize(f'object parameter {p}')
        tr = getattr(world, 'tree', None)
        clash = tr is not None and isinstance(getattr(tr, p, None), z3.FuncDeclRef)      # same naming rule as Engine.fresh_param
        args[p] = concretize(model, t, z3.Const(p + '$arg' if clash else p, t.sort()))
    return call_and_check(world, contract, args, fn)


def call_and_check(world, contract, args, fn=None):
    ns = spec_namespace(world)
    fn = fn or resolve(contract.qual)
    out = dict(function=contract.qual, args={k: repr(v) for k, v in args.items()})
    for r in contract.requires:
        ok, _ = eval_clause(r, ns, dict(args))
        if not ok:
            out.update(status='precondition-false', clause=r)
            return out
    try:
        res = fn(**args)
        exc = None
    except Exception as ex:  # noqa
        res, exc = None, ex
    if exc is not None:
        allowed = any(type(exc).__name__ == a or a in [c.__name__ for c in type(exc).__mro__] for a in contract.raises)
        out.update(raised=f'{type(exc).__name__}: {exc}')
        out['status'] = 'ok-allowed-exception' if allowed else 'violation'
        if not allowed:
            out['failed'] = f'raises only {sorted(contract.raises)}'
        return out
    if contract.kind == 'generator':
        res = list(res)
    out['result'] = repr(res)
    env = dict(args)
    env['result'] = res
    for e in contract.ensures:
        try:
            ok, detail = eval_clause(e, ns, env)
        except Exception as ex:  # spec not executable on this input
            out.update(status='spec-error', clause=e, error=f'{type(ex).__name__}: {ex}')
            return out
        if not ok:
            out.update(status='violation', failed=e, detail=repr(detail))
            return out
    out['status'] = 'ok'
    return out
