"""Discharging obligations: z3 (in process) first, cvc5 (SMT-LIB2 text) for what z3 leaves unknown."""
from __future__ import annotations
import os
import subprocess
import tempfile
import time
import z3

CVC5 = '/usr/bin/cvc5'


def model_to_text(model, limit=60):
    lines = []
    try:
        for d in model.decls():
            nm = d.name()
            if '!' in nm and not nm.startswith(('raises', 'v!')):
                pass
            val = model[d]
            s = str(val)
            if len(s) > 300:
                s = s[:300] + '…'
            lines.append(f'{nm} = {s}')
            if len(lines) >= limit:
                lines.append('…')
                break
    except Exception as ex:  # pragma: no cover
        lines.append(f'<model not printable: {ex}>')
    return lines


def timed_check(solver, timeout_ms):
    """solver.check() under z3's own timeout.  (Interrupting the context from a timer thread was tried and corrupted the
    heap of the worker process; z3's sequence solver may overrun its timeout, which is why string-heavy contracts ask
    cvc5 first.)"""
    solver.set('timeout', int(timeout_ms))
    try:
        return solver.check()
    except z3.Z3Exception:
        return z3.unknown


def check(world, ob, timeout_ms=5000, depth=2, use_cvc5=True, cvc5_timeout_s=10, seeds=(0,), quick_only=False, prefer_cvc5=False):
    """Returns dict(result=proved|refuted|unknown, backend, time, model)."""
    t0 = time.time()
    if z3.is_true(ob.goal):
        return dict(result='proved', backend='z3-simplify', time=0.0, model=None, z3model=None, n_axioms=0)
    base = list(ob.assumptions) + [z3.Not(ob.goal)]
    try:
        axioms = world.close(base, depth=depth)
    except Exception as ex:     # a spec function that cannot be unfolded: the obligation stays undecided (never a violation)
        return dict(result='unknown', backend=None, time=round(time.time() - t0, 4), model=[f'unfolding failed: {type(ex).__name__}: {ex}'],
                    z3model=None, n_axioms=0)
    res = 'unknown'
    backend = None
    model_lines = None
    model = None
    # short restarts first (the sequence solver is unstable: the same query may take 0.1 s or never finish),
    # then the full budget
    # (the last, full-budget attempt uses the default seed again: verdicts must not depend on an unlucky seed when the
    #  machine is busy and the short attempts were cut off)
    plan = [(min(timeout_ms, 3000), 0), (min(timeout_ms, 8000), 7), (timeout_ms, 0)]
    if quick_only:
        plan = plan[:1]
    tried_cvc5 = False
    if depth > 1 and not quick_only and not prefer_cvc5:
        # ascending depth: most obligations need only one level of definitions, and the smaller query is decided in a fraction of the
        # time (less sensitive to machine load).  `unsat` with fewer axioms is a proof; anything else says nothing: go on at full depth.
        try:
            ax1 = world.close(base, depth=1)
            s1 = z3.Solver()
            for a in base:
                s1.add(a)
            for a in ax1:
                s1.add(a)
            if timed_check(s1, min(timeout_ms, 3000)) == z3.unsat:
                second = None
                res1, backend1 = 'proved', f'z3-{z3.get_version_string()}'
                if os.environ.get('PYVC_SECOND_OPINION') == '1' and os.path.exists(CVC5):
                    try:
                        second = run_cvc5(s1.to_smt2(), 10)
                    except Exception:
                        second = 'unknown'
                    if second == 'sat':
                        res1, backend1 = 'unknown', 'z3 says unsat, cvc5 says sat'
                    elif second not in ('unsat', 'unknown'):
                        second = 'not-parsed'
                return dict(result=res1, backend=backend1, time=round(time.time() - t0, 4), model=None, z3model=None,
                            n_axioms=len(ax1), second=second)
        except Exception:
            pass
    for k_, (tmo, seed) in enumerate(plan):
        if k_ == (0 if prefer_cvc5 else 2) and not tried_cvc5 and use_cvc5 and not quick_only and os.path.exists(CVC5):
            if k_ == 0:
                s = z3.Solver()
                for a in base:
                    s.add(a)
                for a in axioms:
                    s.add(a)
            # z3's sequence/string solver is the usual reason for a first-round timeout; cvc5 decides many of those in milliseconds
            tried_cvc5 = True
            try:
                r5 = run_cvc5(s.to_smt2(), min(cvc5_timeout_s, max(2, timeout_ms / 1000)))
            except Exception:
                r5 = 'unknown'
            if r5 == 'unsat':
                res, backend = 'proved', 'cvc5-1.0.3'
                break
        s = z3.Solver()
        if seed:
            s.set('random_seed', seed)
            s.set('smt.random_seed', seed)
        for a in base:
            s.add(a)
        for a in axioms:
            s.add(a)
        r = timed_check(s, tmo)
        if r == z3.unsat:
            res, backend = 'proved', f'z3-{z3.get_version_string()}'
            break
        if r == z3.sat:
            res, backend = 'refuted', f'z3-{z3.get_version_string()}'
            model = s.model()
            model_lines = model_to_text(model)
            break
    depth_used = depth
    if res == 'refuted' and not quick_only:
        # a counter-model at unfolding depth d may be an artefact of definitions not unfolded far enough (named / recursive spec
        # functions are uninterpreted beyond d).  It is put to a deeper query: `unsat` there is a proof (axioms are only added), `sat`
        # there replaces the model; `unknown` leaves the refutation as it is (the obligation held on the unchanged tree and now has a
        # counter-model at the contract's own depth).
        try:
            ax_deep = world.close(base, depth=depth + 2)
            s3 = z3.Solver()
            for a in base:
                s3.add(a)
            for a in ax_deep:
                s3.add(a)
            r3 = timed_check(s3, timeout_ms)
            if r3 == z3.unsat:
                res, backend, model, model_lines = 'proved', f'z3-{z3.get_version_string()} (unfolding depth {depth + 2})', None, None
            elif r3 == z3.sat:
                model = s3.model()
                model_lines = [f'(counter-model confirmed at unfolding depth {depth + 2})'] + model_to_text(model)
        except Exception:
            pass
    if res == 'unknown' and not quick_only and depth > 1:
        # fewer definitional axioms: a smaller query.  unsat there is still a proof (axioms are only dropped);
        # sat there is a counter-model of the assumptions posed at that depth (recorded as such).
        for d in (1, 0):
            ax2 = world.close(base, depth=d) if d else []
            s2 = z3.Solver()
            for a in base:
                s2.add(a)
            for a in ax2:
                s2.add(a)
            r2 = timed_check(s2, min(timeout_ms, 4000))
            if r2 == z3.unsat:
                res, backend, depth_used = 'proved', f'z3-{z3.get_version_string()}', d
                break
            if r2 == z3.sat:
                # a model of the smaller query refutes the obligation only if it also satisfies every definitional axiom of
                # the full query (evaluated in the model, with completion); otherwise it may be an artefact of the missing
                # definitions and the obligation stays undecided
                m2 = s2.model()
                ok = True
                for a in axioms:
                    try:
                        if not z3.is_true(m2.eval(a, model_completion=True)):
                            ok = False
                            break
                    except z3.Z3Exception:
                        ok = False
                        break
                if ok:
                    res, backend, depth_used = 'refuted', f'z3-{z3.get_version_string()}', d
                    model = m2
                    model_lines = [f'(counter-model found at unfolding depth {d} and validated against all {len(axioms)} axioms of depth {depth})'] + model_to_text(model)
                    break
    if res == 'unknown' and use_cvc5 and not tried_cvc5 and os.path.exists(CVC5):
        try:
            smt2 = s.to_smt2()
            r = run_cvc5(smt2, cvc5_timeout_s)
            if r == 'unsat':
                res, backend = 'proved', 'cvc5-1.0.3'
            elif r == 'sat':
                res, backend = 'refuted', 'cvc5-1.0.3'
                model_lines = ['(model from cvc5 not extracted)']
        except Exception:
            pass
    second = None
    if res == 'proved' and backend and backend.startswith('z3') and os.environ.get('PYVC_SECOND_OPINION') == '1' and os.path.exists(CVC5) and depth_used == depth:
        # thorough tier: every z3 `unsat` is put to cvc5 as well (A-smt).  Agreement or `unknown` is recorded; a `sat` from cvc5 on a
        # query z3 called unsat means one of the solvers is wrong: the obligation is then not counted as discharged.
        try:
            second = run_cvc5(s.to_smt2(), 10)
        except Exception:
            second = 'unknown'
        if second == 'sat':
            res, backend = 'unknown', 'z3 says unsat, cvc5 says sat'
        elif second not in ('unsat', 'unknown'):
            second = 'not-parsed'        # z3 printed a solver-internal symbol cvc5 does not know
    return dict(result=res, backend=backend, time=round(time.time() - t0, 4), model=model_lines, z3model=model,
                n_axioms=len(axioms), second=second)


def run_cvc5(smt2, timeout_s):
    text = smt2
    # z3 5.x spells the int/bit-vector conversions int_to_bv / ubv_to_int; cvc5 1.0.3 knows them as int2bv / bv2nat
    text = text.replace('(_ int_to_bv ', '(_ int2bv ').replace('(ubv_to_int ', '(bv2nat ').replace('(bv2int ', '(bv2nat ')
    if '(set-logic' not in text:
        text = '(set-logic ALL)\n' + text
    with tempfile.NamedTemporaryFile('w', suffix='.smt2', delete=False) as f:
        f.write(text)
        path = f.name
    try:
        p = subprocess.run([CVC5, '--strings-exp', f'--tlimit={int(timeout_s * 1000)}', path],
                           capture_output=True, text=True, timeout=timeout_s + 5)
        out = p.stdout.strip().splitlines()
        return out[0].strip() if out else 'unknown'
    except subprocess.TimeoutExpired:
        return 'unknown'
    finally:
        os.unlink(path)


def cover(world, pc, timeout_ms=2000, depth=1):
    """Reachability of a path condition (vacuity guard)."""
    s = z3.Solver()
    s.set('timeout', timeout_ms)
    for a in pc:
        s.add(a)
    for a in world.close(list(pc), depth=depth):
        s.add(a)
    r = s.check()
    return 'reachable' if r == z3.sat else ('unreachable' if r == z3.unsat else 'unknown')
