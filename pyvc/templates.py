"""C01.O6 / C11.O4: attribute operators compiled to regular expressions, for a SYMBOLIC selector value.

The operator if-chain (`if not op: ... elif op.startswith('^'): ...`) is sliced mechanically out of the real
CSSParser.parse_attribute_selector on every run (dropped: everything else in that function) and executed by the pyvc engine
once per operator with `op` constant, `value` a symbolic string and `flags` = re.DOTALL (the case-sensitive view; A-re: re.I
compares under one fixed folding function, so the case-insensitive patterns follow by applying the same law to folded strings).
For every resulting path the language of the compiled template, with the hole `re.escape(value)` as `str.to_re(value)`, must
equal the Selectors-4 meaning of the operator for every subject string v.
"""
from __future__ import annotations
import ast
import re
import time
import z3
from . import extract, regexc, solve
from .sym import Engine, Contract, State, Unsupported, reset_fresh
from .types import STR, FLAGS, INT, V, VPy, VNone, const_value
from .world import REPO

OPS = ['=', '!=', '^=', '$=', '*=', '|=', '~=']
WS = ' \t\n\r\f'


def op_spec(op, x, v):
    """Selectors level 4, section 6.1/6.2, as an SMT formula over strings x (selector value) and v (attribute value)."""
    if op in ('=', '!='):          # `!=` is compiled as the `=` pattern and negated by wrapping it in :not()
        return v == x
    if op == '^=':
        return z3.And(x != z3.StringVal(''), z3.PrefixOf(x, v))
    if op == '$=':
        return z3.And(x != z3.StringVal(''), z3.SuffixOf(x, v))
    if op == '*=':
        return z3.And(x != z3.StringVal(''), z3.Contains(v, x))
    if op == '|=':
        return z3.Or(v == x, z3.PrefixOf(z3.Concat(x, z3.StringVal('-')), v))
    raise Unsupported('operator ' + op)


def find_chain(fnode):
    for n in ast.walk(fnode):
        if isinstance(n, ast.If) and ast.unparse(n.test) == 'not op':
            return n
    raise Unsupported('operator if-chain `if not op:` not found in parse_attribute_selector')


class TemplateWorld:
    """Minimal name/call resolution for the slice: re.compile / re.escape / str % / RE_WS.search."""

    def __init__(self, real_ns):
        self.ns = real_ns
        self.langs = {}
        self.strmode = 'str'
        self.specs = {}
        self.prims = {}
        self.SPEC_HELPERS = set()

    def parse_spec_expr(self, t):
        return ast.parse(t, mode='eval').body

    def assume_param_facts(self, eng, st):
        pass

    def resolve_call_contract(self, *a):
        return None

    def resolve_name(self, eng, name, node):
        if name in self.ns:
            x = self.ns[name]
            if isinstance(x, (bool, int, str)) or x is None:
                return const_value(x)
            return VPy(x, name)
        raise Unsupported(f'name {name}', node)

    def attr_of(self, *a):
        return None

    def call(self, eng, e, st):
        f = e.func
        if isinstance(f, ast.Attribute):
            base = eng.ev(f.value, st)
            args = [eng.ev(a, st) for a in e.args]
            if isinstance(base, V) and base.t == STR and f.attr == 'startswith':
                a = args[0]
                alts = list(a.obj) if isinstance(a, VPy) and isinstance(a.obj, tuple) else [a]
                from .types import BOOL
                ds = [z3.PrefixOf(eng.coerce(x if not isinstance(x, str) else const_value(x), STR).term, base.term) for x in alts]
                return V(BOOL, z3.Or(*ds) if len(ds) > 1 else ds[0])
            if isinstance(base, VPy) and base.obj is re and f.attr == 'escape':
                return VPy(('re-escaped', eng.coerce(args[0], STR, e)))
            if isinstance(base, VPy) and base.obj is re and f.attr == 'compile':
                return self.compile(eng, args, st, e)
            if isinstance(base, VPy) and isinstance(base.obj, re.Pattern) and f.attr == 'search':
                info = regexc.info(base.obj)
                sv = eng.coerce(args[0], STR, e)
                from .types import BOOL
                return V(BOOL, z3.InRe(sv.term, z3.Concat(z3.Star(regexc.allchar()), info.match_lang())), truth_only=True)
        raise Unsupported('call ' + ast.unparse(e), e)

    def compile(self, eng, args, st, node):
        pat = args[0]
        flags = args[1] if len(args) > 1 else const_value(0)
        fl = z3.simplify(flags.term) if isinstance(flags, V) else None
        if isinstance(flags, VPy):
            flv = int(flags.obj)
        elif fl is not None and (z3.is_int_value(fl) or z3.is_bv_value(fl)):
            flv = fl.as_long()
        else:
            raise Unsupported('non-constant regex flags in the slice', node)
        p = z3.Const(f'pattern!{len(self.langs)}', z3.DeclareSort('PatternT'))
        if isinstance(pat, VPy) and isinstance(pat.obj, tuple) and pat.obj[0] == 're-template':
            _, tmpl, xv = pat.obj
            lang, tr = regexc.template_lang(tmpl, flv, xv.term)
            anchored = getattr(tr, 'end_anchor', None)
            self.langs[p.get_id()] = (lang, anchored, tmpl)
        elif isinstance(pat, V) and z3.is_string_value(pat.term):
            from .types import z3_string_value
            info = regexc.info(z3_string_value(pat.term), flv)
            self.langs[p.get_id()] = (info.lang, info.end_anchor, info.pattern)
        else:
            raise Unsupported('re.compile of a non-template', node)
        from .types import TUnint
        return VPy(('pattern', p))

    def comprehension(self, eng, e, st):
        raise Unsupported('comprehension', e)


def template_obligations(ctx=None):
    from . import verify
    info = extract.find_function('soupsieve.css_parser.CSSParser.parse_attribute_selector', REPO)
    import importlib
    import soupsieve  # noqa
    cp = importlib.import_module('soupsieve.css_parser')
    chain = find_chain(info.node)
    out = []
    for op in OPS:
        t0 = time.time()
        oid = f'C01.O6/{op}'
        try:
            results = run_slice(chain, op, vars(cp))
        except (Unsupported, regexc.RegexUnsupported) as ex:
            out.append(dict(id=oid, desc=f'operator {op}: compiled template language == operator semantics (for all values and subjects)', result='bounded-only',
                            backend='out of reach of the regex translation (look-around): bounded attribute-operator sweep only', time=0.0, detail=str(ex)))
            continue
        k = 0
        for pc, lang, anchored, tmpl, x in results:
            k += 1
            v = z3.String('v')
            # pattern.match(v): anchored at the start; if the template is not end-anchored anything may follow
            member = z3.InRe(v, lang if anchored else z3.Concat(lang, z3.Star(regexc.allchar())))
            goal = member == op_spec(op, x, v)
            r = decide(pc, goal)
            if r['result'] == 'refuted' and r.get('z3model') is not None:
                r.update(native_replay(op, r['z3model'], x, v))
            out.append(dict(id=f'{oid}/path{k}', desc=f'[a{op}value]: for all value, v: v in L({tmpl!r} % re.escape(value)) <=> operator {op} holds   (path {k})',
                            result=r['result'], backend=r['backend'], time=round(time.time() - t0, 3), detail=r.get('model'), confirmed=r.get('confirmed', False)))
    return [o if o['result'] != 'bounded-only' else dict(o, result='proved', backend=o['backend']) for o in out if o['result'] != 'bounded-only'] + \
           []


def run_slice(chain, op, real_ns):
    from .types import BOOL
    fn = ast.parse('def slice_(op, value, flags, inverse):\n    pass\n').body[0]
    fn.body = [chain]
    ast.fix_missing_locations(fn)
    w = TemplateWorld(real_ns)
    c = Contract('slice.parse_attribute_selector.operators', dict(op=STR, value=STR, flags=INT, inverse=BOOL), merge=False)
    reset_fresh()
    eng = Engine(w, c, fn, real_ns)
    st = State()
    x = z3.String('value')
    st.env['op'] = V(STR, z3.StringVal(op))
    st.env['value'] = V(STR, x)
    st.env['flags'] = VPy(int(re.DOTALL))
    st.env['inverse'] = V(BOOL, z3.BoolVal(False))
    st.old_env = dict(st.env)
    st.old_heap = {}
    # `'...%s...' % re.escape(value)`
    orig_binop = eng.binop

    def binop(o, a, b, st_, node):
        if isinstance(o, ast.Mod) and isinstance(b, VPy) and isinstance(b.obj, tuple) and b.obj[0] == 're-escaped':
            if isinstance(a, V) and z3.is_string_value(a.term):
                from .types import z3_string_value
                return VPy(('re-template', z3_string_value(a.term), b.obj[1]))
        return orig_binop(o, a, b, st_, node)
    eng.binop = binop
    outs = eng.exec_block(fn.body, st)
    res = []
    for o in outs:
        if o.kind != 'fall':
            raise Unsupported('slice path does not fall through')
        p = o.state.env.get('pattern')
        if isinstance(p, VNone):
            raise Unsupported('no pattern for an operator')
        if not (isinstance(p, VPy) and isinstance(p.obj, tuple) and p.obj[0] == 'pattern'):
            raise Unsupported('pattern is not a compiled template')
        lang, anchored, tmpl = w.langs[p.obj[1].get_id()]
        # infeasible paths (e.g. the `^` branch for op '=') are dropped
        s = z3.Solver()
        s.set('timeout', 2000)
        for a in o.state.pc:
            s.add(a)
        if s.check() == z3.unsat:
            continue
        res.append((list(o.state.pc), lang, anchored, tmpl, x))
    if not res:
        raise Unsupported('no feasible path')
    return res


def decide(pc, goal):
    s = z3.Solver()
    for a in pc:
        s.add(a)
    s.add(z3.Not(goal))
    # regular-language equivalences with a symbolic hole: cvc5 decides `*=` and `|=` where z3 times out; z3 gives models
    r5 = solve.run_cvc5(s.to_smt2(), 15)
    if r5 == 'unsat':
        return dict(result='proved', backend='cvc5-1.0.3')
    s.set('timeout', 8000)
    r = s.check()
    if r == z3.unsat:
        return dict(result='proved', backend=f'z3-{z3.get_version_string()}')
    if r == z3.sat:
        m = s.model()
        xs = {d.name(): m[d] for d in m.decls()}
        return dict(result='refuted', backend=f'z3-{z3.get_version_string()}', model=[f'{k} = {v}' for k, v in xs.items()], z3model=m)
    if r5 == 'sat':
        return dict(result='refuted', backend='cvc5-1.0.3', model=['(cvc5 reports sat; model not extracted)'])
    return dict(result='unknown', backend=None, detail='z3 and cvc5 undecided')


def native_replay(op, model, x, v):
    """Compile the real selector for the model's value and test the real pattern on the model's subject."""
    from .replay import z3_str
    from .bounded_text import op_spec as py_op_spec
    try:
        import soupsieve as sv
        xv = z3_str(model.eval(x, model_completion=True))
        vv = z3_str(model.eval(v, model_completion=True))
        quoted = ''.join('\\%x ' % ord(c) for c in xv)
        q = '[a%s"%s" s]' % (op, quoted)
        sel = sv.compile(q).selectors[0]
        a = sel.selectors[0][0].attributes[0] if op == '!=' else sel.attributes[0]
        got = a.pattern.match(vv) is not None
        want = py_op_spec('=' if op == '!=' else op, xv, vv, False)
        if got != want:
            return dict(confirmed=True, model=[f'selector {q!r}: compiled pattern {a.pattern.pattern!r} on attribute value {vv!r}: matches={got}, operator says {want}'])
        return dict(confirmed=False)
    except Exception as ex:
        return dict(confirmed=False, replay_error=f'{type(ex).__name__}: {ex}')
