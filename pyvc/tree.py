"""The bs4 object model as seen by the contracts (assumption A-bs4, DESIGN.md 4.3) and the selector IR sorts.

`Node` is an uninterpreted sort with a distinguished NONE.  Accessors are uninterpreted functions; the
well-formedness axioms below are schemas instantiated at the Node terms occurring in each VC.
"""
from __future__ import annotations
import z3
from .types import (T, INT, BOOL, STR, CPS, FLAGS, TUnint, TOpt, TSeq, TTup, TUnion, TMap, TRec, V, VNone, VPy, VObj,
                    ObjType, const_value)
from .sym import Unsupported, fresh
from .types import z3_string_value


def _node_truthy(term):
    # bool(Tag) is True; a NavigableString is a str: empty string is falsy
    return z3.And(term != NODE.none, z3.Or(is_tag(term), z3.Length(text(term)) > 0))


NODE = TUnint('Node', with_none=True, truthy_fn=_node_truthy)
NS = NODE.sort()
SEQ_NODE = TSeq(NODE)
OPT_STR = TOpt(STR)

parent = z3.Function('parent', NS, NS)
contents = z3.Function('contents', NS, SEQ_NODE.sort())
idx = z3.Function('idx', NS, z3.IntSort())
depth = z3.Function('depth', NS, z3.IntSort())
height = z3.Function('height', NS, z3.IntSort())        # finite trees: a node is strictly lower than its parent
bidi_class = z3.Function('bidi_class', z3.StringSort(), z3.StringSort())   # unicodedata.bidirectional (A-py: a total function of the character)
is_tag = z3.Function('is_tag', NS, z3.BoolSort())
is_doc = z3.Function('is_doc', NS, z3.BoolSort())
is_navstr = z3.Function('is_navstr', NS, z3.BoolSort())
is_comment = z3.Function('is_comment', NS, z3.BoolSort())
is_cdata = z3.Function('is_cdata', NS, z3.BoolSort())
is_pi = z3.Function('is_pi', NS, z3.BoolSort())
is_decl = z3.Function('is_decl', NS, z3.BoolSort())
is_doctype = z3.Function('is_doctype', NS, z3.BoolSort())
is_fake = z3.Function('is_fake_parent', NS, z3.BoolSort())
text = z3.Function('text', NS, z3.StringSort())
name = z3.Function('name', NS, z3.StringSort())
prefix = z3.Function('prefix', NS, OPT_STR.sort())
namespace = z3.Function('namespace', NS, OPT_STR.sort())
is_xml_flag = z3.Function('is_xml_flag', NS, z3.BoolSort())
descendants = z3.Function('descendants', NS, SEQ_NODE.sort())
next_element = z3.Function('next_element', NS, NS)
dindex = z3.Function('dindex', NS, NS, z3.IntSort())      # position of a node in descendants(e); len(descendants(e)) when it is not among them

# attributes: the normalised view (key string, AttrVal) in dict order; raw values only matter to normalize_value
ATTRVAL = TUnion('AttrVal', {'AStr': STR, 'AList': TSeq(STR)},
                 truthy_fn=lambda t, term: z3.If(t.is_alt(term, 'AStr'), z3.Length(t.get(term, 'AStr')) > 0,
                                                 z3.Length(t.get(term, 'AList')) > 0))
OPT_ATTRVAL = TOpt(ATTRVAL)
ATTR_PAIR = TTup(STR, ATTRVAL)
SEQ_ATTR = TSeq(ATTR_PAIR)
nattrs = z3.Function('nattrs', NS, SEQ_ATTR.sort())
attr_ns = z3.Function('attr_ns', NS, z3.StringSort(), OPT_STR.sort())       # namespace URI of attribute key k of el
attr_local = z3.Function('attr_local', NS, z3.StringSort(), OPT_STR.sort())  # local name (None for plain str keys)

# raw attribute values as bs4 stores them (only normalize_value looks inside): an uninterpreted sort
RAW = TUnint('RawValue')
RAW_PAIR = TTup(STR, RAW)
SEQ_RAW = TSeq(RAW_PAIR)
rattrs = z3.Function('raw_attrs', NS, SEQ_RAW.sort())          # el.attrs.items() in dict order (keys are unique strings)
norm_raw = z3.Function('normalize', RAW.sort(), ATTRVAL.sort())  # meaning of normalize_value (C08.O1)

NONE = NODE.none


def next_sibling_term(t):
    p = parent(t)
    return z3.If(z3.And(p != NONE, idx(t) + 1 < z3.Length(contents(p))), contents(p)[idx(t) + 1], NONE)


def previous_sibling_term(t):
    p = parent(t)
    return z3.If(z3.And(p != NONE, idx(t) >= 1), contents(p)[idx(t) - 1], NONE)


# ----------------------------------------------------------------------------------------------------------
# IR sorts (read from css_types.__slots__ at install time so that renamed/reordered slots are noticed)

PAT = TUnint('Pattern', with_none=False)
pat_match = z3.Function('PatMatch', PAT.sort(), z3.StringSort(), z3.BoolSort())

SELLIST = TRec('SelectorList')
SEL = TRec('Selector')
SELTAG = TRec('SelectorTag')
SELATTR = TRec('SelectorAttribute')
SELNTH = TRec('SelectorNth')
SELCONTAINS = TRec('SelectorContains')
SELLANG = TRec('SelectorLang')

IR_FIELDS = {
    'SelectorList': (SELLIST, dict(selectors=TSeq(SEL), is_not=BOOL, is_html=BOOL)),
    'Selector': (SEL, dict(tag=TOpt(SELTAG), ids=TSeq(STR), classes=TSeq(STR), attributes=TSeq(SELATTR), nth=TSeq(SELNTH),
                           selectors=TSeq(SELLIST), relation=SELLIST, rel_type=TOpt(STR), contains=TSeq(SELCONTAINS),
                           lang=TSeq(SELLANG), flags=FLAGS)),
    'SelectorTag': (SELTAG, dict(name=TOpt(STR), prefix=TOpt(STR))),
    'SelectorAttribute': (SELATTR, dict(attribute=STR, prefix=STR, pattern=TOpt(PAT), xml_type_pattern=TOpt(PAT))),
    'SelectorNth': (SELNTH, dict(a=INT, n=BOOL, b=INT, of_type=BOOL, last=BOOL, selectors=SELLIST)),
    'SelectorContains': (SELCONTAINS, dict(text=TSeq(STR), own=BOOL)),
    'SelectorLang': (SELLANG, dict(languages=TSeq(STR))),
}
sel_is_null = z3.Function('Selector.is_null', SEL.sort(), z3.BoolSort())
height_list = z3.Function('height.SelectorList', SELLIST.sort(), z3.IntSort())

NSMAP = TMap(STR, STR)

CSSMATCH = ObjType('CSSMatch',
                   immut=dict(tag=NODE, selectors=SELLIST, flags=INT, root=NODE, scope=NODE, has_html_namespace=BOOL,
                              is_xml=BOOL, is_html=BOOL),
                   # per-call state: the namespace map / iframe flag swapped around HTML-only lists, and the three memo tables
                   mut=dict(namespaces=NSMAP, iframe_restrict=BOOL, cached_default_forms=TSeq(TTup(NODE, NODE)),
                            cached_meta_lang=TSeq(TTup(NODE, TOpt(STR))), cached_indeterminate_forms=TSeq(TTup(NODE, OPT_ATTRVAL, BOOL))),
                   cls_qual='soupsieve.css_match.CSSMatch')


# The parser's working compound (css_parser._Selector): every field the small parse_* methods touch.  `relations` (a list of other working
# compounds) is not modelled: a function that touches it is outside the accepted subset.
PSEL = ObjType('_Selector', immut=dict(),
               mut=dict(tag=TOpt(SELTAG), ids=TSeq(STR), classes=TSeq(STR), attributes=TSeq(SELATTR), nth=TSeq(SELNTH), selectors=TSeq(SELLIST),
                        rel_type=TOpt(STR), contains=TSeq(SELCONTAINS), lang=TSeq(SELLANG), flags=FLAGS, no_match=BOOL),
               cls_qual='soupsieve.css_parser._Selector')
# the token iterator handed down the recursive descent: its consumption is made explicit by a position counter
ISEL = ObjType('iselector', immut=dict(), mut=dict(pos=INT), cls_qual=None)
CSSPARSER = ObjType('CSSParser', immut=dict(pattern=STR, flags=INT, debug=BOOL, quirks=BOOL), mut=dict(), cls_qual='soupsieve.css_parser.CSSParser')


def install(world):
    import sys
    ct = world.module('soupsieve.css_types')
    # slots/fields agreement with the real classes
    for cname, (rec, fields) in IR_FIELDS.items():
        cls = getattr(ct, cname)
        slots = [s for s in cls.__slots__ if s != '_hash']
        if set(fields) != set(slots):
            # a renamed / added / removed field changes what the contracts talk about: the sidecar must follow.
            # (a mere reordering is harmless for the matcher; constructor/pickle order is C15.O4's obligation)
            raise RuntimeError(f'IR sort {cname}: __slots__ {slots} differ from the sidecar field list {list(fields)}')
        for f, t in fields.items():
            if f not in rec.fields:
                rec.add_field(f, t)
    SELLIST.truthy = lambda term: z3.Length(SELLIST.get(term, 'selectors')) > 0
    SELLANG.truthy = lambda term: z3.Length(SELLANG.get(term, 'languages')) > 0
    world.tree = sys.modules[__name__]
    world.watch_decls = set(getattr(world, 'watch_decls', ())) | {'ascii_lower', 'dindex'}
    bs4 = world.module('bs4')

    # ---- symbolic side of the tree primitives (spec/vocab_tree.py)
    import spec.vocab_tree as VT

    def node_arg(eng, a, node):
        return eng.coerce(a, NODE, node).term

    def mk1(fn, rt):
        def p(eng, args, st, node):
            return V(rt, fn(node_arg(eng, args[0], node)))
        return p
    for nm, fn, rt in [('parent', parent, NODE), ('contents', contents, SEQ_NODE), ('idx', idx, INT), ('depth', depth, INT), ('height', height, INT),
                       ('is_tag', is_tag, BOOL), ('is_doc', is_doc, BOOL), ('is_navstr', is_navstr, BOOL),
                       ('is_comment', is_comment, BOOL), ('is_cdata', is_cdata, BOOL), ('is_pi', is_pi, BOOL),
                       ('is_decl', is_decl, BOOL), ('is_doctype', is_doctype, BOOL), ('text', text, STR), ('name', name, STR),
                       ('prefix', prefix, OPT_STR), ('namespace', namespace, OPT_STR), ('is_xml_flag', is_xml_flag, BOOL),
                       ('next_sibling', next_sibling_term, NODE), ('previous_sibling', previous_sibling_term, NODE)]:
        world.add_prim(nm, mk1(fn, rt), getattr(VT, nm))

    import spec.vocab_ir as VI
    import inspect as _inspect

    # ---- construction of IR values: a fresh value of the record sort whose fields are the constructor's arguments (the classes are
    # plain immutable records: Immutable.__init__ stores every keyword under its slot; C15's structural obligations check that)
    def ir_construct(eng, base, attr, args, kwargs, st, node, recv_node):
        if attr != '__new__' or not (isinstance(base, VPy) and isinstance(base.obj, tuple) and base.obj[0] == 'class'):
            return NotImplemented
        cname = base.obj[1].rsplit('.', 1)[-1]
        if not base.obj[1].startswith('soupsieve.css_types.') or cname not in IR_FIELDS:
            return NotImplemented
        rec, fields = IR_FIELDS[cname]
        cls = getattr(ct, cname)
        params = [p for p in _inspect.signature(cls.__init__).parameters.values()][1:]
        bound = {}
        pos = list(args)
        for p in params:
            if pos:
                bound[p.name] = pos.pop(0)
            elif p.name in kwargs:
                bound[p.name] = kwargs[p.name]
            elif p.default is not _inspect.Parameter.empty:
                bound[p.name] = const_value(p.default)
            else:
                raise Unsupported(f'{cname}(): missing argument {p.name}', node)
        if set(bound) != set(fields):
            raise Unsupported(f'{cname}(): constructor parameters {sorted(bound)} are not its fields {sorted(fields)}', node)
        v = fresh(rec, cname)
        for f, t in fields.items():
            a = bound[f]
            if isinstance(a, VNone) and isinstance(t, TSeq):
                # SelectorList(selectors=None): `tuple(selectors) if selectors is not None else ()` in its __init__
                a = V(t, z3.Empty(t.sort()))
            st.pc.append(rec.get(v.term, f) == eng.coerce(a, t, node).term)
        if rec.none is not None:
            st.pc.append(v.term != rec.none)
        return v
    world.method_rules.append(ir_construct)

    def p_sel_is_null(eng, args, st, node):
        return V(BOOL, sel_is_null(eng.coerce(args[0], SEL, node).term))
    world.add_prim('sel_is_null', p_sel_is_null, VI.sel_is_null)

    def p_dsize(eng, args, st, node):
        return V(INT, z3.Length(descendants(node_arg(eng, args[0], node))))
    world.add_prim('dsize', p_dsize, VT.dsize)

    def p_dindex(eng, args, st, node):
        return V(INT, dindex(node_arg(eng, args[0], node), node_arg(eng, args[1], node)))
    world.add_prim('dindex', p_dindex, VT.dindex)

    def p_descendants(eng, args, st, node):
        return V(SEQ_NODE, descendants(node_arg(eng, args[0], node)))
    world.add_prim('descendants', p_descendants, VT.descendants)

    def p_next_element(eng, args, st, node):
        return V(NODE, next_element(node_arg(eng, args[0], node)))
    world.add_prim('next_element', p_next_element, VT.next_element)

    def _mk_unesc(attr):
        def p(eng, args, st, node):
            import soupsieve.css_parser as cp
            pid = world.rx.pid(getattr(cp, attr))[0]
            return V(STR, world.rx.sub_cb(z3.IntVal(pid), eng.coerce(args[0], STR, node).term))
        return p
    world.add_prim('unesc_plain', _mk_unesc('RE_CSS_ESC'), VT.unesc_plain)
    world.add_prim('unesc_string', _mk_unesc('RE_CSS_STR_ESC'), VT.unesc_string)

    def _rv():
        import soupsieve.css_parser as cp
        pid, info = world.rx.pid(cp.RE_VALUES)
        return pid, info

    def p_rv_starts(eng, args, st, node):
        return V(TSeq(INT), world.rx.starts(z3.IntVal(_rv()[0]), eng.coerce(args[0], STR, node).term))
    world.add_prim('rv_starts', p_rv_starts, VT.rv_starts)

    def _mk_rv_group(gname):
        def p(eng, args, st, node):
            pid, info = _rv()
            s_, p_ = eng.coerce(args[0], STR, node).term, eng.coerce(args[1], INT, node).term
            g = info.group_id(gname)
            gt = world.rx.grp(z3.IntVal(pid), z3.IntVal(g), s_, p_)
            ht = world.rx.has(z3.IntVal(pid), z3.IntVal(g), s_, p_)
            return V(OPT_STR, z3.If(ht, OPT_STR.some(gt), OPT_STR.none()))
        return p
    world.add_prim('rv_split', _mk_rv_group('split'), VT.rv_split)
    world.add_prim('rv_value', _mk_rv_group('value'), VT.rv_value)

    def _ls_pid():
        import soupsieve.util as su
        return world.rx.pid(su.RE_PATTERN_LINE_SPLIT)[0]

    def p_ls_starts(eng, args, st, node):
        return V(TSeq(INT), world.rx.starts(z3.IntVal(_ls_pid()), eng.coerce(args[0], STR, node).term))
    world.add_prim('ls_starts', p_ls_starts, VT.ls_starts)

    def p_ls_end(eng, args, st, node):
        return V(INT, world.rx.end(z3.IntVal(_ls_pid()), eng.coerce(args[0], STR, node).term, eng.coerce(args[1], INT, node).term))
    world.add_prim('ls_end', p_ls_end, VT.ls_end)

    def p_bidi_class(eng, args, st, node):
        return V(STR, bidi_class(eng.coerce(args[0], STR, node).term))
    world.add_prim('bidi_class', p_bidi_class, VT.bidi_class)
    import unicodedata
    world.prims_by_obj[id(unicodedata.bidirectional)] = 'bidi_class'

    fake_parent_f = z3.Function('fake_parent', NS, NS)

    def p_fake_parent(eng, args, st, node):
        return V(NODE, fake_parent_f(node_arg(eng, args[0], node)))
    world.add_prim('fake_parent', p_fake_parent, VT.fake_parent)

    def p_rattrs(eng, args, st, node):
        return V(SEQ_RAW, rattrs(node_arg(eng, args[0], node)))
    world.add_prim('rattrs', p_rattrs, VT.rattrs)

    def p_norm(eng, args, st, node):
        return V(ATTRVAL, norm_raw(eng.coerce(args[0], RAW, node).term))
    world.add_prim('norm', p_norm, VT.norm)

    def p_as_str(eng, args, st, node):
        a = args[0]
        if isinstance(a, VNone):
            return a
        if isinstance(a, VPy) and isinstance(a.obj, str):
            return const_value(a.obj)
        if isinstance(a, V) and a.t == STR:
            return a
        a = eng.coerce(a, OPT_ATTRVAL, node)
        return V(OPT_STR, z3.If(OPT_ATTRVAL.is_none(a.term), OPT_STR.none(), OPT_STR.some(ATTRVAL.get(OPT_ATTRVAL.val_acc(a.term), 'AStr'))))
    world.add_prim('as_str', p_as_str, VT.as_str)

    def p_is_str_val(eng, args, st, node):
        a = eng.coerce(args[0], OPT_ATTRVAL, node)
        return V(BOOL, z3.Or(OPT_ATTRVAL.is_none(a.term), ATTRVAL.is_alt(OPT_ATTRVAL.val_acc(a.term), 'AStr')))
    world.add_prim('is_str_val', p_is_str_val, VT.is_str_val)

    def p_ws_tokens(eng, args, st, node):
        import re as _re
        pid, info = world.rx.pid(_re.compile('[^ \t\r\n\f]+'))
        a = args[0]
        if isinstance(a, V) and isinstance(a.t, TOpt):
            a = V(a.t.inner, a.t.val(a.term))
        return V(TSeq(STR), world.rx.findall(z3.IntVal(pid), eng.coerce(a, STR, node).term))
    world.add_prim('ws_tokens', p_ws_tokens, VT.ws_tokens)

    def p_is_list_val(eng, args, st, node):
        a = eng.coerce(args[0], OPT_ATTRVAL, node)
        return V(BOOL, z3.And(z3.Not(OPT_ATTRVAL.is_none(a.term)), ATTRVAL.is_alt(OPT_ATTRVAL.val_acc(a.term), 'AList')))
    world.add_prim('is_list_val', p_is_list_val, VT.is_list_val)

    def p_as_list(eng, args, st, node):
        a = eng.coerce(args[0], OPT_ATTRVAL, node)
        return V(TSeq(STR), ATTRVAL.get(OPT_ATTRVAL.val_acc(a.term), 'AList'))
    world.add_prim('as_list', p_as_list, VT.as_list)

    def p_attr_ns(eng, args, st, node):
        return V(OPT_STR, attr_ns(node_arg(eng, args[0], node), eng.coerce(args[1], STR, node).term))
    world.add_prim('attr_ns', p_attr_ns, VT.attr_ns)

    def p_attr_local(eng, args, st, node):
        return V(OPT_STR, attr_local(node_arg(eng, args[0], node), eng.coerce(args[1], STR, node).term))
    world.add_prim('attr_local', p_attr_local, VT.attr_local)

    def p_pat_match(eng, args, st, node):
        return V(BOOL, pat_match(eng.coerce(args[0], PAT, node).term, eng.coerce(args[1], STR, node).term))
    world.add_prim('pat_match', p_pat_match, VT.pat_match)

    def p_join_sp(eng, args, st, node):
        f = world.ufunc('str.join.str', STR.sort(), TSeq(STR).sort(), STR.sort())
        return V(STR, f(z3.StringVal(' '), eng.coerce(args[0], TSeq(STR), node).term))
    world.add_prim('join_sp', p_join_sp, VT.join_sp)

    def p_has_non_ws(eng, args, st, node):
        import re as _re
        from . import regexc
        pid, info = world.rx.pid(_re.compile('[^ \t\r\n\f]'))
        sv = eng.coerce(args[0], STR, node)
        return V(BOOL, z3.InRe(sv.term, z3.Concat(z3.Star(regexc.allchar()), info.match_lang())))
    world.add_prim('has_non_ws', p_has_non_ws, VT.has_non_ws)

    def p_strip_nonempty(eng, args, st, node):
        f = world.ufunc('str.strip.str', STR.sort(), STR.sort())
        return V(BOOL, z3.Length(f(eng.coerce(args[0], STR, node).term)) > 0)
    world.add_prim('strip_nonempty', p_strip_nonempty, VT.strip_nonempty)

    def p_wild_strip(eng, args, st, node):
        import re as _re
        pid, info = world.rx.pid(_re.compile(r'(?:-\*)+(?=-|\Z)'))
        return V(STR, world.rx.subf(z3.IntVal(pid), z3.StringVal(''), eng.coerce(args[0], STR, node).term))
    world.add_prim('wild_strip', p_wild_strip, VT.wild_strip)

    def p_py_lower(eng, args, st, node):
        f = world.ufunc('str.lower.str', STR.sort(), STR.sort())
        return V(STR, f(eng.coerce(args[0], STR, node).term))
    world.add_prim('py_lower', p_py_lower, VT.py_lower)

    def p_split_dash(eng, args, st, node):
        f = world.ufunc('str.split.str', STR.sort(), STR.sort(), TSeq(STR).sort())
        return V(TSeq(STR), f(eng.coerce(args[0], STR, node).term, z3.StringVal('-')))
    world.add_prim('split_dash', p_split_dash, VT.split_dash)

    def p_join_empty(eng, args, st, node):
        f = world.ufunc('str.join.str', STR.sort(), TSeq(STR).sort(), STR.sort())
        return V(STR, f(z3.StringVal(''), eng.coerce(args[0], TSeq(STR), node).term))
    world.add_prim('join_empty', p_join_empty, VT.join_empty)

    def coerce_hook(eng, v, t, node):
        # a NavigableString used where a str is expected is its text
        if isinstance(v, V) and v.t == NODE and t == STR:
            cs = getattr(eng, 'cur_state', None)
            if cs is not None and not eng.spec_mode:
                eng.oblige(cs, 'str-node', is_navstr(v.term), 'page element used as a string is a NavigableString')
            return V(STR, text(v.term))
        # a module-level IR constant (the pre-compiled CSS_* lists): an uninterpreted constant of the record sort, one per object
        if isinstance(v, VPy) and isinstance(t, TRec):
            for cname, (rec, _) in IR_FIELDS.items():
                if rec == t and isinstance(v.obj, getattr(ct, cname)):
                    key = id(v.obj)
                    consts = world.__dict__.setdefault('_ir_consts', {})
                    if key not in consts:
                        consts[key] = (v.obj, z3.Const(f'const.{v.qual or cname}.{len(consts)}', t.sort()))
                    return V(t, consts[key][1])
        return None
    world.coerce_hook = coerce_hook

    def p_same(eng, args, st, node):
        return V(BOOL, eng.eq(args[0], args[1], node))
    world.add_prim('same', p_same, VT.same)
    ascii_lower = world.ufunc('ascii_lower', STR.sort(), STR.sort())

    def p_lower(eng, args, st, node):
        a = args[0]
        if isinstance(a, V) and isinstance(a.t, TOpt):
            a = V(a.t.inner, a.t.val(a.term))
        return V(STR, ascii_lower(eng.coerce(a, STR, node).term))
    world.add_prim('ascii_lower', p_lower, VT.ascii_lower)

    def p_ns_get(eng, args, st, node):
        m = eng.coerce(args[0], NSMAP, node)
        k = eng.coerce(args[1], STR, node)
        return V(NSMAP.vopt, z3.Select(m.term, k.term))
    world.add_prim('ns_get', p_ns_get, VT.ns_get)

    def p_html_ns_map(eng, args, st, node):
        return eng.lift_py({'html': VT.NS_XHTML}, NSMAP, node)
    world.add_prim('html_ns_map', p_html_ns_map, VT.html_ns_map)

    def p_empty_map(eng, args, st, node):
        return eng.lift_py({}, NSMAP, node)
    world.add_prim('html_free_map', p_empty_map, VT.html_free_map)
    # util.lower seen from SMT strings: the function proved over code points (contracts/strings.py), other representation
    world.str_views = getattr(world, 'str_views', {})
    world.str_views['soupsieve.util.lower'] = ascii_lower

    # ---- attributes of Node values
    def attr_rule(eng, base, attr, st, node):
        if not (isinstance(base, V) and base.t == NODE):
            return None
        t = base.term
        default = None
        if isinstance(attr, tuple):
            _, attr, default = attr
        if default is None:
            eng.may_raise(st, 'AttributeError', t == NONE, f'attribute .{attr} of None')
        if attr == 'parent':
            return V(NODE, parent(t))
        if attr == 'contents':
            return V(SEQ_NODE, contents(t))
        if attr == 'next_sibling':
            return V(NODE, next_sibling_term(t))
        if attr == 'previous_sibling':
            return V(NODE, previous_sibling_term(t))
        if attr == 'name':
            return V(STR, name(t))
        if attr == 'prefix':
            return V(OPT_STR, prefix(t))
        if attr == 'namespace':
            return V(OPT_STR, namespace(t))
        if attr == '_is_xml':
            return V(BOOL, is_xml_flag(t))
        if attr == 'descendants':
            return V(SEQ_NODE, descendants(t))
        if attr == 'next_element':
            return V(NODE, next_element(t))
        if attr == 'attrs':
            return VPy(('attrs', t))
        return None
    world.attr_rules.append(attr_rule)

    # ---- `==` on page elements is bs4's structural equality (Tag.__eq__ compares name, attributes and contents;
    #      strings compare as str), NOT identity: modelled as an uninterpreted relation that identity implies
    struct_eq = z3.Function('bs4.__eq__', NS, NS, z3.BoolSort())

    def value_eq_hook(eng, a, b, node):
        if isinstance(a, V) and isinstance(b, V) and a.t == NODE and b.t == NODE:
            return z3.Or(a.term == b.term, struct_eq(a.term, b.term))
        return None
    world.value_eq_hook = value_eq_hook

    # ---- isinstance
    kind_of = {bs4.Tag: is_tag, bs4.BeautifulSoup: is_doc, bs4.element.NavigableString: is_navstr, bs4.Comment: is_comment,
               bs4.CData: is_cdata, bs4.ProcessingInstruction: is_pi, bs4.Declaration: is_decl, bs4.Doctype: is_doctype}

    def isinstance_rule(eng, v, cls, st, node):
        if isinstance(v, V) and v.t == NODE and isinstance(cls, VPy):
            f = kind_of.get(cls.obj)
            if f is not None:
                return f(v.term)
            if cls.obj is str:
                return is_navstr(v.term)
        if isinstance(v, VNone) and isinstance(cls, VPy) and cls.obj in kind_of:
            return z3.BoolVal(False)
        if isinstance(v, V) and v.t == SEL and isinstance(cls, VPy) and cls.obj == ('class', 'soupsieve.css_types.SelectorNull'):
            return sel_is_null(v.term)
        if isinstance(v, V) and v.t == ATTRVAL and isinstance(cls, VPy) and cls.obj is str:
            return ATTRVAL.is_alt(v.term, 'AStr')
        if isinstance(v, V) and isinstance(v.t, TOpt) and v.t.inner == ATTRVAL and isinstance(cls, VPy) and cls.obj is str:
            return z3.And(z3.Not(v.t.is_none(v.term)), ATTRVAL.is_alt(v.t.val(v.term), 'AStr'))
        if isinstance(v, V) and v.t == STR and isinstance(cls, VPy) and cls.obj is str:
            return z3.BoolVal(True)
        return None
    world.isinstance_rules.append(isinstance_rule)

    # ---- methods / protocols
    def method_rule(eng, base, attr, args, kwargs, st, node, recv_node):
        if isinstance(base, V) and base.t == SELLIST:
            if attr == '__len__':
                return V(INT, z3.Length(SELLIST.get(base.term, 'selectors')))
        if isinstance(base, V) and base.t == PAT and attr == 'match':
            sv = eng.coerce(args[0], STR, node)
            oi = TOpt(INT)
            return V(oi, z3.If(pat_match(base.term, sv.term), oi.some(z3.IntVal(0)), oi.none()))
        if isinstance(base, V) and base.t == NODE:
            if attr == '__len__':
                return V(INT, z3.Length(contents(base.term)))
            if attr == 'strip':
                f = world.ufunc('str.strip.str', STR.sort(), STR.sort())
                return V(STR, f(text(base.term)))
        if isinstance(base, VPy) and isinstance(base.obj, tuple) and base.obj and base.obj[0] == 'attrs':
            if attr == 'items':
                return V(SEQ_RAW, rattrs(base.obj[1]))
            if attr == '__getitem__':
                k = eng.coerce(args[0], STR, node)
                i = world.specs['raw_index'].declare()(rattrs(base.obj[1]), k.term, z3.IntVal(0))
                eng.may_raise(st, 'KeyError', i < 0, 'el.attrs[name]')
                st.pc.append(z3.Implies(i >= 0, i < z3.Length(rattrs(base.obj[1]))))
                return V(RAW, RAW_PAIR.get(rattrs(base.obj[1])[i], 1))
        return NotImplemented
    world.method_rules.append(method_rule)

    def nattrs_raw_marker(t):
        raise Unsupported('direct use of el.attrs.items(): verify through iter_attributes/get_attribute_by_name contracts')

    # ---- iteration / indexing protocols of IR records are handled in Engine via these hooks
    world.iter_rules = getattr(world, 'iter_rules', [])

    def iter_rule(eng, v, st, node):
        if isinstance(v, V) and v.t == SELLIST:
            return V(TSeq(SEL), SELLIST.get(v.term, 'selectors'))
        if isinstance(v, V) and v.t == SELLANG:
            return V(TSeq(STR), SELLANG.get(v.term, 'languages'))
        if isinstance(v, V) and v.t == NODE:
            eng.may_raise(st, 'TypeError', v.term == NONE, 'iteration over None')
            return V(SEQ_NODE, contents(v.term))
        return None
    world.iter_rules.append(iter_rule)

    # ---- axioms
    def axioms(world_, formulas):
        node_terms = {}
        nth_terms = {}
        lowers = {}
        for f in formulas:
            _, nodes, nths, watched = world_.scan(f)
            node_terms.update(nodes)
            nth_terms.update(nths)
            lowers.update(watched)
        ax = []
        # util.lower preserves length (proved for the real function over code points, contracts/strings.py); the same fact
        # for its SMT-string view ascii_lower
        for t in lowers.values():
            if t.decl().name() == 'ascii_lower':
                ax.append(z3.Length(t) == z3.Length(t.arg(0)))
                if z3.is_string_value(t.arg(0)):
                    # on a literal the function is computed (A-Z -> a-z, everything else unchanged: what util.lower is proved to do)
                    lit = z3_string_value(t.arg(0))
                    ax.append(t == z3.StringVal(''.join(chr(ord(ch) + 32) if 'A' <= ch <= 'Z' else ch for ch in lit)))
        # one extra round: parents of the terms found
        extra = {}
        for t in list(node_terms.values()):
            p = parent(t)
            extra[p.get_id()] = p
        node_terms.update(extra)
        ncache = world_.__dict__.setdefault('_node_axiom_cache', {})
        for t in node_terms.values():
            hit = ncache.get(t.get_id())
            if hit is None:
                hit = (t, node_axioms(t))
                ncache[t.get_id()] = hit
            ax.extend(hit[1])
        for nt in nth_terms.values():
            seq, i = nt.arg(0), nt.arg(1)
            if z3.is_app(seq) and seq.decl().eq(contents):
                p = seq.arg(0)
                ax.append(z3.Implies(z3.And(i >= 0, i < z3.Length(seq)),
                                     z3.And(parent(nt) == p, idx(nt) == i, nt != NONE)))
            elif z3.is_app(seq) and seq.decl().eq(descendants):
                # A-bs4-preorder: e.descendants is the pre-order flattening of e's subtree (validated natively on every corpus node)
                e = seq.arg(0)
                c = nt
                n = z3.Length(seq)
                size = z3.Length(descendants(c))
                after = i + 1 + size
                g = z3.And(i >= 0, i < n)
                ax.append(z3.Implies(g, z3.And(
                    c != NONE,
                    after <= n,                                                   # the subtree of c lies inside e's
                    z3.Implies(z3.Not(is_tag(c)), size == 0),                      # strings have no descendants
                    dindex(e, c) == i,                                            # positions identify nodes (no node occurs twice)
                    z3.Implies(next_sibling_term(c) != NONE,                      # the next sibling follows c's subtree immediately
                               z3.And(after < n, seq[after] == next_sibling_term(c))))))
                ld = world_.specs.get('last_desc')
                if ld is not None:
                    ne = next_element(ld.declare()(c))
                    ax.append(z3.Implies(g, z3.And(
                        z3.Implies(ne == NONE, after == n),                       # nothing follows in the whole document
                        z3.Implies(ne != NONE, dindex(e, ne) == after))))         # what follows the subtree of c (possibly outside e's)
        for t in lowers.values():
            if t.decl().name() == 'dindex':
                e, x = t.arg(0), t.arg(1)
                n = z3.Length(descendants(e))
                ax.append(z3.And(t >= 0, t <= n, z3.Implies(t < n, descendants(e)[t] == x)))
        return ax
    world.axiom_rules.append(axioms)


def node_axioms(t):
    p = parent(t)
    return [
        depth(t) >= 0,
        height(t) >= 0,
        z3.Implies(p != NONE, height(p) > height(t)),
        idx(t) >= 0,
        z3.Implies(t == NONE, z3.And(z3.Not(is_tag(t)), z3.Not(is_navstr(t)), parent(t) == NONE, z3.Length(contents(t)) == 0)),
        z3.Implies(t != NONE, is_tag(t) != is_navstr(t)),
        z3.Implies(is_doc(t), z3.And(is_tag(t), p == NONE)),
        z3.Implies(z3.Or(is_comment(t), is_cdata(t), is_pi(t), is_decl(t), is_doctype(t)), is_navstr(t)),
        z3.Implies(z3.Not(is_tag(t)), z3.And(z3.Length(contents(t)) == 0, z3.Not(is_doc(t)), z3.Not(is_fake(t)))),
        z3.Implies(is_navstr(t), z3.Not(z3.Or(is_doc(t)))),
        z3.Implies(p != NONE, z3.And(idx(t) >= 0, idx(t) < z3.Length(contents(p)), contents(p)[idx(t)] == t,
                                     depth(p) == depth(t) - 1, is_tag(p), t != NONE)),
    ]
