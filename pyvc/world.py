"""The verification world: contract and spec registries, name/call resolution, builtin models,
definitional unfolding of spec functions and axiom instantiation."""
from __future__ import annotations
import ast
import importlib
import inspect
import os
import re
import sys
import textwrap
import types as pytypes
import z3
from .types import (z3_string_value, T, INT, BOOL, REAL, STR, CPS, FLAGS, NONET, TUnint, TOpt, TSeq, TTup, TUnion, TMap, TRec,
                    V, VNone, VPy, VObj, ObjType, const_value, str_to_cps)
from .sym import Engine, Contract, State, Outcome, Unsupported, fresh, fresh_name, exc_is
from . import extract

REPO = os.environ.get('VERIF_REPO', '/repo')

PY_TYPES = {int: INT, bool: BOOL, str: STR, float: REAL}
INT_MAX_STR_DIGITS = getattr(sys.int_info, 'default_max_str_digits', 0) or 10 ** 9


class SpecFn:
    def __init__(self, fn, world):
        self.fn = fn
        self.name = fn.__name__
        src = textwrap.dedent(inspect.getsource(fn))
        self.node = ast.parse(src).body[0]
        self.module_ns = fn.__globals__
        ann = {k: self._ann(v) for k, v in fn.__annotations__.items()}
        self.ret = ann.pop('return')
        self.params = ann
        self.abstract = getattr(fn, '_pyvc_abstract', False)
        self.recursive = False
        self.decl = None
        self.calls = {n.func.id for n in ast.walk(self.node) if isinstance(n, ast.Call) and isinstance(n.func, ast.Name)}

    def _ann(self, a):
        if isinstance(a, str):
            a = eval(a, self.module_ns)
        if isinstance(a, (T, ObjType)):
            return a
        if a in PY_TYPES:
            return PY_TYPES[a]
        raise TypeError(f'spec function {self.name}: annotation {a!r} is not a pyvc type')

    def declare(self):
        if self.decl is None:
            sorts = [(t.rec.sort() if isinstance(t, ObjType) else t.sort()) for t in self.params.values()]
            self.decl = z3.Function(f'spec.{self.name}', *sorts, self.ret.sort())
        return self.decl


class World:
    def __init__(self):
        self.contracts: dict[str, Contract] = {}
        self.specs: dict[str, SpecFn] = {}
        self.specs_by_obj = {}
        self.prims = {}            # name -> callable(engine, args, st, node) -> value
        self.prims_by_obj = {}
        self.attr_rules = []       # callables (engine, base V, attr, st, node) -> value | None
        self.isinstance_rules = []  # callables (engine, value, cls obj, st, node) -> z3 Bool | None
        self.method_rules = []     # callables (engine, base value, attr, args, kwargs, st, node, recv_node) -> value | NotImplemented
        self.param_fact_rules = []
        self.axiom_rules = []      # callables (world, terms:set) -> list of z3 Bool
        self._spec_expr_cache = {}
        self._lex = {}
        self._modules = {}
        self._fn_info = {}
        self.uf = {}
        self.strmode = 'str'
        if REPO not in sys.path:
            sys.path.insert(0, REPO)

    # ---------------------------------------------------------------- registry
    def add_contract(self, c: Contract):
        self.contracts[c.qual] = c

    def add_spec_module(self, mod):
        for name, fn in vars(mod).items():
            if isinstance(fn, pytypes.FunctionType) and fn.__module__ == mod.__name__ and not name.startswith('_'):
                if getattr(fn, '_pyvc_prim', False):
                    continue
                sf = SpecFn(fn, self)
                self.specs[name] = sf
                self.specs_by_obj[id(fn)] = sf
        self._mark_recursive()

    def _mark_recursive(self):
        # a spec function is recursive if it can reach itself through spec calls
        graph = {n: {c for c in s.calls if c in self.specs} for n, s in self.specs.items()}
        for n in graph:
            seen, stack = set(), list(graph[n])
            while stack:
                x = stack.pop()
                if x in seen:
                    continue
                seen.add(x)
                stack.extend(graph[x])
            self.specs[n].recursive = n in seen or getattr(self.specs[n].fn, '_pyvc_named', False)

    def add_prim(self, name, sym_fn, concrete_fn=None):
        self.prims[name] = sym_fn
        if concrete_fn is not None:
            self.prims_by_obj[id(concrete_fn)] = name

    def ufunc(self, name, *sorts):
        key = name
        if key not in self.uf:
            self.uf[key] = z3.Function(name, *sorts)
        return self.uf[key]

    def parse_spec_expr(self, text):
        if text not in self._spec_expr_cache:
            self._spec_expr_cache[text] = ast.parse(text.strip(), mode='eval').body
        return self._spec_expr_cache[text]

    # ---------------------------------------------------------------- real modules / functions
    def module(self, name):
        if name not in self._modules:
            if 'soupsieve' not in sys.modules:
                importlib.import_module('soupsieve')
            self._modules[name] = importlib.import_module(name)
        return self._modules[name]

    def fn_info(self, qual):
        """AST + decorator facts of a function in /repo, by qualified name."""
        qual = qual.split('@')[0]
        if qual not in self._fn_info:
            self._fn_info[qual] = extract.find_function(qual, REPO)
        return self._fn_info[qual]

    def method_of(self, cls_qual, attr):
        if cls_qual is None:
            return None
        modname, _, clsname = cls_qual.rpartition('.')
        try:
            cls = getattr(self.module(modname), clsname)
        except Exception:
            return None
        for k in cls.__mro__:
            if attr in k.__dict__ and k.__module__.startswith('soupsieve'):
                return f'{k.__module__}.{k.__qualname__}.{attr}'
        return None

    # ---------------------------------------------------------------- names
    BUILTINS = {'len', 'int', 'chr', 'ord', 'bool', 'str', 'isinstance', 'tuple', 'list', 'getattr', 'enumerate',
                'float', 'range', 'cast', 'print', 'min', 'max', 'abs', 'type', 'hash', 'next', 'super', 'any', 'all',
                'sorted', 'iter', 'dict', 'bytes', 'Sequence'}
    SPEC_HELPERS = {'old', 'implies', 'iff', 'ite', 'result_is_none', 'unit', 'empty', 'seq_slice', 'forall_idx',
                    'truthy', 'is_none', 'some', 'val'}

    def resolve_name(self, eng: Engine, name, node):
        ns = eng.ns
        if eng.spec_mode and name in self.SPEC_HELPERS:
            return VPy(('spechelper', name))
        if eng.spec_mode and name in self.specs and name not in ns:
            return VPy(('spec', self.specs[name]))
        if eng.spec_mode and name in self.prims and name not in ns:
            return VPy(('prim', name))
        if name in ns:
            return self.wrap_py(ns[name], name)
        if name in self.specs and eng.spec_mode:
            return VPy(('spec', self.specs[name]))
        if name in self.BUILTINS:
            return VPy(('builtin', name))
        import builtins
        if hasattr(builtins, name):
            obj = getattr(builtins, name)
            if isinstance(obj, type) and issubclass(obj, BaseException):
                return VPy(obj)
            return VPy(obj)
        raise Unsupported(f'unresolved name {name!r}', node)

    def wrap_py(self, x, qual=None):
        if id(x) in self.prims_by_obj:
            return VPy(('prim', self.prims_by_obj[id(x)]))
        if id(x) in self.specs_by_obj:
            return VPy(('spec', self.specs_by_obj[id(x)]))
        if isinstance(x, (bool, int, float, str)) or x is None:
            return const_value(x)
        if isinstance(x, pytypes.ModuleType):
            return VPy(x, x.__name__)
        if isinstance(x, type):
            if x.__module__.startswith('soupsieve'):
                return VPy(('class', f'{x.__module__}.{x.__qualname__}'), f'{x.__module__}.{x.__qualname__}')
            return VPy(x)
        if isinstance(x, (pytypes.FunctionType, pytypes.MethodType)):
            f = getattr(x, '__wrapped__', x)
            mod = getattr(f, '__module__', '') or ''
            if mod.startswith('soupsieve'):
                return VPy(('function', f'{mod}.{f.__qualname__}'))
            return VPy(x)
        if hasattr(x, '__wrapped__') and getattr(x.__wrapped__, '__module__', '').startswith('soupsieve'):
            f = x.__wrapped__
            return VPy(('function', f'{f.__module__}.{f.__qualname__}'))
        return VPy(x, qual)

    # ---------------------------------------------------------------- attributes on symbolic values
    def attr_of(self, eng, base, attr, st, node):
        for r in self.attr_rules:
            v = r(eng, base, attr, st, node)
            if v is not None:
                return v
        return None

    def assume_param_facts(self, eng, st):
        for r in self.param_fact_rules:
            r(eng, st)

    # ---------------------------------------------------------------- calls
    def resolve_call_contract(self, eng, call: ast.Call, st):
        """Best-effort static resolution of a call to a contracted function (used for loop havoc)."""
        try:
            f = call.func
            if isinstance(f, ast.Attribute) and isinstance(f.value, ast.Name):
                base = st.env.get(f.value.id)
                if isinstance(base, VObj):
                    q = self.method_of(base.rt.cls_qual, f.attr)
                    return self.contracts.get(q)
                if f.value.id == 'cls' and eng.cls_qual:
                    return self.contracts.get(self.method_of(eng.cls_qual, f.attr))
                if base is None and f.value.id in eng.ns:
                    o = eng.ns[f.value.id]
                    if isinstance(o, type) and o.__module__.startswith('soupsieve'):
                        return self.contracts.get(self.method_of(f'{o.__module__}.{o.__qualname__}', f.attr))
                    if isinstance(o, pytypes.ModuleType):
                        x = getattr(o, f.attr, None)
                        x = getattr(x, '__wrapped__', x)
                        if isinstance(x, pytypes.FunctionType):
                            return self.contracts.get(f'{x.__module__}.{x.__qualname__}')
            if isinstance(f, ast.Name):
                v = st.env.get(f.id)
                if isinstance(v, VPy) and isinstance(v.obj, tuple) and v.obj[0] == 'nested':
                    return self.contracts.get(f'{eng.c.qual}.{v.obj[1]}')
        except Exception:
            return None
        return None

    def call(self, eng: Engine, e: ast.Call, st: State):
        f = e.func
        # spec helpers that need unevaluated arguments
        if eng.spec_mode and isinstance(f, ast.Name) and f.id == 'old' and 'old' not in st.env:
            s = st.copy()
            s.env = dict(st.old_env)
            for k in ('result',):
                s.env.pop(k, None)
            s.heap = dict(st.old_heap)
            return eng.ev(e.args[0], s)
        if eng.spec_mode and isinstance(f, ast.Name) and (f.id in self.prims or f.id in self.specs or f.id in self.SPEC_HELPERS):
            # in contract text a vocabulary name always denotes the vocabulary function, even if a local shadows it
            args = [eng.ev(a, st) for a in e.args]
            if f.id in self.SPEC_HELPERS:
                return self.spechelper(eng, f.id, args, st, e)
            if f.id in self.prims:
                return self.prims[f.id](eng, args, st, e)
            return self.apply_spec(eng, self.specs[f.id], args, st, e)
        if isinstance(f, ast.Name) and f.id == 'cast' and len(e.args) == 2 and 'cast' not in st.env:
            return eng.ev(e.args[1], st)       # typing.cast(T, x) is x; T is a type expression, not evaluated
        if isinstance(f, ast.Attribute):
            base = eng.ev(f.value, st)
            return self.call_attr(eng, base, f.attr, e, st, f.value)
        fv = eng.ev(f, st)
        args = [eng.ev(a, st) for a in e.args]
        kwargs = {k.arg: eng.ev(k.value, st) for k in e.keywords}
        return self.apply(eng, fv, args, kwargs, st, e)

    def apply(self, eng, fv, args, kwargs, st, node):
        if not isinstance(fv, VPy):
            raise Unsupported(f'call of {fv!r}', node)
        o = fv.obj
        if isinstance(o, tuple):
            tag = o[0]
            if tag == 'builtin':
                return self.builtin(eng, o[1], args, kwargs, st, node)
            if tag == 'spechelper':
                return self.spechelper(eng, o[1], args, st, node)
            if tag == 'spec':
                return self.apply_spec(eng, o[1], args, st, node)
            if tag == 'prim':
                return self.prims[o[1]](eng, args, st, node)
            if tag == 'function':
                return self.call_contract(eng, o[1], None, args, kwargs, st, node)
            if tag == 'method':
                return self.call_contract(eng, o[1], o[2], args, kwargs, st, node)
            if tag == 'nested':
                return self.call_contract(eng, f'{eng.c.qual}.{o[1]}', None, args, kwargs, st, node)
            if tag == 'class':
                return self.construct(eng, o[1], args, kwargs, st, node)
        if o is __import__('typing').cast:
            return args[1]
        if o is __import__('warnings').warn:
            # A-py: issuing a warning under the default filters returns None (with -W error the deprecated alias :contains raises
            # FutureWarning by the user's own choice)
            return VNone()
        for r in self.method_rules:
            v = r(eng, fv, '__call__', args, kwargs, st, node, None)
            if v is not NotImplemented:
                return v
        raise Unsupported(f'call of {o!r}', node)

    def construct(self, eng, cls_qual, args, kwargs, st, node):
        for r in self.method_rules:
            v = r(eng, VPy(('class', cls_qual)), '__new__', args, kwargs, st, node, None)
            if v is not NotImplemented:
                return v
        raise Unsupported(f'construction of {cls_qual}', node)

    def call_attr(self, eng, base, attr, e, st, recv_node):
        if isinstance(base, VPy) and isinstance(base.obj, tuple) and base.obj and base.obj[0] == 'choice':
            _, c, a, b = base.obj
            st.guards.append(c)
            try:
                ra = self.call_attr(eng, a, attr, e, st, recv_node)
            finally:
                st.guards.pop()
            st.guards.append(z3.Not(c))
            try:
                rb = self.call_attr(eng, b, attr, e, st, recv_node)
            finally:
                st.guards.pop()
            m = eng.merge_val(c, ra, rb)
            if m is None:
                raise Unsupported('method on a conditional object with unrelated results', e)
            return m
        args = [eng.ev(a, st) for a in e.args]
        kwargs = {k.arg: eng.ev(k.value, st) for k in e.keywords}
        if isinstance(base, VObj):
            q = self.method_of(base.rt.cls_qual, attr)
            if q is not None and q in self.contracts:
                return self.call_contract(eng, q, base, args, kwargs, st, e)
            if attr in base.rt.mut or attr in base.rt.rec.fields:
                fld = eng.getattr(base, attr, st, e)
                return self.value_method(eng, fld, '__call__', args, kwargs, st, e, None)
            raise Unsupported(f'method {base.name}.{attr} has no contract', e)
        if isinstance(base, VPy):
            o = base.obj
            if isinstance(o, tuple) and o[0] == 'class':
                q = self.method_of(o[1], attr)
                if q is None:
                    raise Unsupported(f'{o[1]}.{attr} not found', e)
                return self.call_contract(eng, q, None, args, kwargs, st, e)
            if isinstance(o, pytypes.ModuleType):
                x = getattr(o, attr, None)
                if x is None:
                    raise Unsupported(f'{o.__name__}.{attr} not found', e)
                return self.apply(eng, self.wrap_py(x, f'{o.__name__}.{attr}'), args, kwargs, st, e)
            if isinstance(o, str):
                return self.str_method(eng, V(eng_str_t(self), self.lift_str(o)), attr, args, kwargs, st, e)
            if isinstance(o, dict) and attr == 'get' and o and len(args) in (1, 2) and (len(args) == 1 or isinstance(args[1], VNone)):
                # lookup in a module-level constant mapping: a chain of comparisons with its keys (first key wins, as keys are distinct)
                vals = [const_value(v) for v in o.values()]
                if all(isinstance(v, V) and v.t == vals[0].t for v in vals):
                    rt = TOpt(vals[0].t)
                    res = rt.none()
                    for k, v in reversed(list(zip(o.keys(), vals))):
                        res = z3.If(eng.eq(args[0], const_value(k), e), rt.some(v.term), res)
                    return V(rt, res)
        return self.value_method(eng, base, attr, args, kwargs, st, e, recv_node)

    def value_method(self, eng, base, attr, args, kwargs, st, node, recv_node):
        for r in self.method_rules:
            v = r(eng, base, attr, args, kwargs, st, node, recv_node)
            if v is not NotImplemented:
                return v
        if isinstance(base, V):
            if base.t == CPS and attr == 'append' and isinstance(recv_node, ast.Name) and recv_node.id in eng.c.joined_locals:
                item = eng.coerce(args[0], CPS, node)
                eng.assign(_store_ctx(recv_node), V(CPS, z3.Concat(base.term, item.term)), st)
                return VNone()
            if base.t in (STR, CPS):
                return self.str_method(eng, base, attr, args, kwargs, st, node)
            if isinstance(base.t, TSeq):
                return self.seq_method(eng, base, attr, args, kwargs, st, node, recv_node)
            if isinstance(base.t, TMap):
                if attr == 'get':
                    k = eng.coerce(args[0], base.t.k, node)
                    r = V(base.t.vopt, z3.Select(base.term, k.term))
                    if len(args) > 1 and not isinstance(args[1], VNone):
                        d = eng.coerce(args[1], base.t.v, node)
                        return V(base.t.v, z3.If(base.t.vopt.is_none(r.term), d.term, base.t.vopt.val(r.term)))
                    return r
            if isinstance(base.t, TOpt):
                eng.may_raise(st, 'AttributeError', base.t.is_none(base.term), f'method .{attr} of an Optional that may be None')
                return self.value_method(eng, V(base.t.inner, base.t.val(base.term)), attr, args, kwargs, st, node, recv_node)
        if isinstance(base, VPy) and isinstance(base.obj, list) and attr == 'append':
            raise Unsupported('append on a constant list (declare the local in contract.locals)', node)
        raise Unsupported(f'method .{attr} of {base!r}', node)

    def lift_str(self, s):
        return z3.StringVal(s) if self.strmode == 'str' else str_to_cps(s)

    def seq_method(self, eng, base, attr, args, kwargs, st, node, recv_node):
        if attr in ('append', 'extend'):
            if not isinstance(recv_node, (ast.Name, ast.Attribute)):
                raise Unsupported('append on a temporary', node)
            if attr == 'append':
                item = eng.coerce(args[0], base.t.elem, node)
                new = V(base.t, z3.Concat(base.term, z3.Unit(item.term)))
            else:
                other = eng.coerce(args[0], base.t, node)
                new = V(base.t, z3.Concat(base.term, other.term))
            eng.assign(_store_ctx(recv_node), new, st)
            return VNone()
        if attr == 'index':
            raise Unsupported('list.index', node)
        raise Unsupported(f'sequence method {attr}', node)

    def str_method(self, eng, base, attr, args, kwargs, st, node):
        t = base.t
        s = base.term
        if attr in ('startswith', 'endswith'):
            a = args[0]
            alts = list(a.obj) if isinstance(a, VPy) and isinstance(a.obj, tuple) else [a]
            fn = z3.PrefixOf if attr == 'startswith' else z3.SuffixOf
            ds = []
            for x in alts:
                xv = eng.coerce(x if isinstance(x, (V, VPy, VNone)) else const_value(x), t, node)
                ds.append(fn(xv.term, s))
            return V(BOOL, z3.Or(*ds) if len(ds) > 1 else ds[0])
        if attr == 'find':
            xv = eng.coerce(args[0], t, node)
            return V(INT, z3.IndexOf(s, xv.term, 0))
        if attr == 'join':
            seq = args[0]
            if isinstance(seq, V) and seq.t == CPS and getattr(node, 'args', None) and isinstance(node.args[0], ast.Name) and \
                    node.args[0].id in eng.c.joined_locals:
                return seq
            if isinstance(seq, V) and seq.t == TSeq(CPS) and (
                    (t == STR and z3.is_string_value(s) and z3_string_value(s) == '') or
                    (t == CPS and z3.is_true(z3.simplify(z3.Length(s) == 0)))) and 'flat' in self.specs:
                return V(CPS, self.specs['flat'].declare()(seq.term))
            if isinstance(seq, V) and not isinstance(seq.t, TSeq) and t == STR:
                try:
                    seq = eng.coerce(seq, TSeq(STR), node)
                except Unsupported:
                    pass
            if isinstance(seq, V) and isinstance(seq.t, TSeq) and seq.t.elem == t:
                f = self.ufunc(f'str.join.{t.name}', t.sort(), seq.t.sort(), t.sort())
                return V(t, f(s, seq.term))
            if isinstance(seq, V) and seq.t == TSeq(CPS) and t == STR and z3.is_string_value(s):
                f = self.ufunc('str.join.cps', CPS.sort(), seq.t.sort(), CPS.sort())
                return V(CPS, f(str_to_cps(z3_string_value(s)), seq.term))
            raise Unsupported(f'join of {seq!r}', node)
        if attr == 'lower':
            f = self.ufunc(f'str.lower.{t.name}', t.sort(), t.sort())
            return V(t, f(s))
        if attr == 'strip':
            f = self.ufunc(f'str.strip.{t.name}', t.sort(), t.sort())
            r = f(s)
            st.pc.append(z3.Length(r) <= z3.Length(s))
            return V(t, r)
        if attr == 'split':
            sep = eng.coerce(args[0], t, node)
            st_ = TSeq(t)
            f = self.ufunc(f'str.split.{t.name}', t.sort(), t.sort(), st_.sort())
            r = f(s, sep.term)
            st.pc.append(z3.Length(r) >= 1)
            return V(st_, r)
        if attr == 'replace':
            a, b = eng.coerce(args[0], t, node), eng.coerce(args[1], t, node)
            if t == STR:
                f = self.ufunc('str.replace_all', t.sort(), t.sort(), t.sort(), t.sort())
                return V(t, f(s, a.term, b.term))
            f = self.ufunc('cps.replace_all', t.sort(), t.sort(), t.sort(), t.sort())
            return V(t, f(s, a.term, b.term))
        if attr == 'decode':
            raise Unsupported('decode', node)
        raise Unsupported(f'str method {attr}', node)

    # ---- builtins
    def builtin(self, eng, name, args, kwargs, st, node):
        if name == 'len':
            a = args[0]
            for r in self.method_rules:
                v = r(eng, a, '__len__', [], {}, st, node, None)
                if v is not NotImplemented:
                    return v
            return V(INT, eng.seq_len(a, node))
        if name == 'cast':
            return args[1]
        if name == 'print':
            return VNone()
        if name == 'bool':
            return V(BOOL, eng.truthy(args[0], node))
        if name == 'isinstance':
            return V(BOOL, self.isinstance(eng, args[0], args[1], st, node))
        if name == 'ord':
            a = args[0]
            if isinstance(a, V) and a.t == CPS:
                eng.may_raise(st, 'TypeError', z3.Length(a.term) != 1, 'ord() of a string of length != 1')
                return V(INT, a.term[0])
            if isinstance(a, V) and a.t == STR:
                eng.may_raise(st, 'TypeError', z3.Length(a.term) != 1, 'ord() of a string of length != 1')
                return V(INT, z3.StrToCode(a.term))
            if isinstance(a, VPy) and isinstance(a.obj, str) and len(a.obj) == 1:
                return const_value(ord(a.obj))
            raise Unsupported('ord argument', node)
        if name == 'chr':
            n = eng.coerce(args[0], INT, node).term
            eng.may_raise(st, 'ValueError', z3.Or(n < 0, n > 0x10FFFF), 'chr() argument out of range')
            if self.strmode == 'cps':
                return V(CPS, z3.Unit(n))
            return V(STR, z3.StrFromCode(n))
        if name == 'int':
            a = args[0]
            if isinstance(a, V) and a.t in (INT,):
                return a
            if isinstance(a, V) and a.t == STR:
                base = 10
                if len(args) > 1:
                    b = args[1]
                    bb = z3.simplify(b.term) if isinstance(b, V) else None
                    if bb is None or not z3.is_int_value(bb):
                        raise Unsupported('int() base must be constant', node)
                    base = bb.as_long()
                if base == 10:
                    lang = z3.Plus(z3.Range('0', '9'))
                    eng.may_raise(st, 'ValueError', z3.Not(z3.InRe(a.term, lang)), 'int(s, 10) of a non-digit string')
                    # CPython >= 3.11: decimal strings longer than sys.int_info.default_max_str_digits raise ValueError
                    eng.may_raise(st, 'ValueError', z3.Length(a.term) > INT_MAX_STR_DIGITS, 'int(s, 10) beyond the interpreter digit limit')
                    return V(INT, z3.StrToInt(a.term))
                if base == 16:
                    # int() strips surrounding whitespace (str.strip semantics); CSS whitespace is a subset of it
                    wsl = z3.Star(z3.Union(z3.Re(' '), z3.Re('\t'), z3.Re('\n'), z3.Re('\r'), z3.Re('\x0c'), z3.Re('\x0b')))
                    lang = z3.Concat(wsl, z3.Plus(z3.Union(z3.Range('0', '9'), z3.Range('a', 'f'), z3.Range('A', 'F'))), wsl)
                    eng.may_raise(st, 'ValueError', z3.Not(z3.InRe(a.term, lang)), 'int(s, 16) of a non-hex string')
                    f = self.ufunc('hex_value', STR.sort(), INT.sort())
                    r = f(a.term)
                    st.pc.append(r >= 0)
                    st.pc.append(z3.Implies(z3.Length(a.term) <= 6, r <= 0xFFFFFF))
                    return V(INT, r)
            raise Unsupported(f'int() of {a!r}', node)
        if name == 'float':
            a = args[0]
            if isinstance(a, V) and a.t == STR:
                f = self.ufunc('float_value', STR.sort(), REAL.sort())
                lang = self.float_lang()
                eng.may_raise(st, 'ValueError', z3.Not(z3.InRe(a.term, lang)), 'float() of a non-numeric string')
                return V(REAL, f(a.term))
            if isinstance(a, V) and a.t == INT:
                return V(REAL, z3.ToReal(a.term))
            raise Unsupported('float argument', node)
        if name == 'str':
            a = args[0]
            if isinstance(a, V) and a.t in (STR, CPS):
                return a
            if isinstance(a, VPy) and isinstance(a.obj, (str, int)):
                return const_value(str(a.obj))
            return fresh(STR if self.strmode == 'str' else CPS, 'str')
        if name in ('tuple', 'list'):
            if not args:
                raise Unsupported('empty list()/tuple() needs a declared local sort', node)
            a = args[0]
            if isinstance(a, V) and isinstance(a.t, TSeq):
                return a
            if isinstance(a, VPy) and isinstance(a.obj, (tuple, list)):
                return a
            raise Unsupported(f'{name}() of {a!r}', node)
        if name == 'enumerate':
            return VPy(('enumerate', args[0]))
        if name == 'abs':
            a = eng.coerce(args[0], INT, node).term
            return V(INT, z3.If(a >= 0, a, -a))
        if name == 'getattr':
            obj, nm = args[0], args[1]
            if not (isinstance(nm, VPy) or (isinstance(nm, V) and z3.is_string_value(nm.term))):
                raise Unsupported('getattr with a non-constant name', node)
            attr = nm.obj if isinstance(nm, VPy) else z3_string_value(nm.term)
            if len(args) > 2:
                for r in self.attr_rules:
                    v = r(eng, obj, ('getattr-default', attr, args[2]), st, node)
                    if v is not None:
                        return v
                raise Unsupported(f'getattr(…, {attr!r}, default) on {obj!r}', node)
            return eng.getattr(obj, attr, st, node)
        if name == 'type':
            return fresh(STR, 'typeobj')
        raise Unsupported(f'builtin {name}', node)

    def float_lang(self):
        d = z3.Range('0', '9')
        return z3.Concat(z3.Option(z3.Re('-')), z3.Union(z3.Concat(z3.Plus(d), z3.Option(z3.Concat(z3.Re('.'), z3.Plus(d)))),
                                                           z3.Concat(z3.Re('.'), z3.Plus(d))))

    def int_to_str(self, term):
        return z3.IntToStr(term)

    def isinstance(self, eng, v, cls, st, node):
        classes = list(cls.obj) if isinstance(cls, VPy) and isinstance(cls.obj, tuple) and not (cls.obj and cls.obj[0] in ('class', 'builtin')) else [cls]
        res = []
        for c in classes:
            c = c if isinstance(c, (VPy, V)) else VPy(c)
            if isinstance(c, VPy) and isinstance(c.obj, tuple) and len(c.obj) == 2 and c.obj[0] == 'builtin':
                import builtins as _b
                c = VPy(getattr(_b, c.obj[1]))
            ok = None
            for r in self.isinstance_rules:
                ok = r(eng, v, c, st, node)
                if ok is not None:
                    break
            if ok is None:
                raise Unsupported(f'isinstance({v!r}, {c!r})', node)
            res.append(ok)
        return z3.Or(*res) if len(res) > 1 else res[0]

    # ---- spec helpers
    def spechelper(self, eng, name, args, st, node):
        if name == 'implies':
            return V(BOOL, z3.Implies(eng.truthy(args[0]), eng.truthy(args[1])))
        if name == 'iff':
            return V(BOOL, eng.truthy(args[0]) == eng.truthy(args[1]))
        if name == 'truthy':
            return V(BOOL, eng.truthy(args[0]))
        if name == 'ite':
            m = eng.merge_val(eng.truthy(args[0]), args[1], args[2])
            if m is None:
                raise Unsupported('ite of unrelated sorts', node)
            return m
        if name == 'unit':
            a = args[0]
            return V(TSeq(a.t), z3.Unit(a.term))
        if name == 'is_none':
            a = args[0]
            if isinstance(a, VNone):
                return V(BOOL, z3.BoolVal(True))
            return V(BOOL, eng.eq(a, VNone(), node))
        if name == 'val':
            a = args[0]
            return V(a.t.inner, a.t.val(a.term))
        raise Unsupported(f'spec helper {name}', node)

    # ---- spec functions
    def apply_spec(self, eng, sf: SpecFn, args, st, node):
        pts = list(sf.params.items())
        if len(args) != len(pts):
            raise Unsupported(f'spec function {sf.name} called with {len(args)} args', node)
        cargs = []
        for a, (pn, pt) in zip(args, pts):
            if isinstance(pt, ObjType):
                if not isinstance(a, VObj):
                    raise Unsupported(f'spec {sf.name}: object expected for {pn}', node)
                cargs.append(a)
            else:
                cargs.append(eng.coerce(a, pt, node))
        if sf.abstract or sf.recursive or sf.name in getattr(self, 'current_opaque', ()):
            decl = sf.declare()
            return V(sf.ret, decl(*[a.term for a in cargs]))
        return self.eval_spec_body(sf, cargs, eng)

    def eval_spec_body(self, sf: SpecFn, cargs, parent_eng=None):
        c = Contract(f'spec.{sf.name}', dict(sf.params), returns=sf.ret)
        eng = Engine(self, c, sf.node, sf.module_ns)
        eng.spec_mode = 1
        eng.path_limit = 20000
        st = State()
        for (pn, pt), a in zip(sf.params.items(), cargs):
            st.env[pn] = a
        st.old_env = dict(st.env)
        st.old_heap = {}
        outs = eng.exec_block(sf.node.body, st)
        res = None
        for o in reversed(outs):
            if o.kind != 'return':
                raise Unsupported(f'spec function {sf.name}: a path does not end in return')
            v = eng.coerce(o.value, sf.ret)
            if res is None:
                res = v
            else:
                cond = z3.And(*o.state.pc) if o.state.pc else z3.BoolVal(True)
                res = V(sf.ret, z3.If(cond, v.term, res.term))
        return res

    def unfold(self, sf: SpecFn, app):
        """Definitional axiom  f(args) == body[args]  for one application term (memoised per term: z3 terms are hash-consed,
        and the cache keeps the term alive so its id cannot be reused)."""
        cache = self.__dict__.setdefault('_unfold_cache', {})
        key = (app.get_id(), frozenset(getattr(self, 'current_opaque', ())))
        hit = cache.get(key)
        if hit is not None:
            return hit[1]
        ax = self._unfold(sf, app)
        cache[key] = (app, ax)
        return ax

    def _unfold(self, sf: SpecFn, app):
        cargs = []
        for (pn, pt), a in zip(sf.params.items(), app.children()):
            if isinstance(pt, ObjType):
                cargs.append(VObj(pn, pt, a))
            else:
                cargs.append(V(pt, a))
        body = self.eval_spec_body(sf, cargs)
        return app == body.term

    def lex_lt(self, t: TSeq):
        """Python's lexicographic < on sequences of numbers, as a recursive function (unfolded on demand)."""
        key = t.name
        if key not in self._lex:
            self._lex[key] = z3.Function(f'lex_lt.{key}', t.sort(), t.sort(), z3.BoolSort())
        return self._lex[key]

    def lex_axiom(self, app):
        a, b = app.children()
        la, lb = z3.Length(a), z3.Length(b)
        f = app.decl()
        ta = z3.SubSeq(a, 1, la - 1)
        tb = z3.SubSeq(b, 1, lb - 1)
        return app == z3.If(lb == 0, False, z3.If(la == 0, True, z3.Or(a[0] < b[0], z3.And(a[0] == b[0], f(ta, tb)))))

    # ---------------------------------------------------------------- closing a VC under definitions/axioms
    def scan(self, f):
        """(spec/lex applications, Node-sorted terms, seq.nth terms over Node sequences) occurring in formula f.
        Memoised per top-level formula: the obligations of one function share most of their path-condition formulas, and
        walking z3 terms through the Python API is what costs time."""
        cache = self.__dict__.setdefault('_scan_cache', {})
        fid = f.get_id()
        hit = cache.get(fid)
        if hit is not None:
            return hit[1]
        names = self.__dict__.get('_scan_names')
        if names is None:
            names = {f'spec.{n}' for n in self.specs} | {fn.name() for fn in self._lex.values()}
            self._scan_names = names
        node_sort = getattr(self, 'tree', None).NS if getattr(self, 'tree', None) is not None else None
        seqnode_sort = self.tree.SEQ_NODE.sort() if node_sort is not None else None
        apps, nodes, nths = {}, {}, {}
        watched = {}
        watch = getattr(self, 'watch_decls', ())
        visited = set()
        stack = [f]
        while stack:
            t = stack.pop()
            tid = t.get_id()
            if tid in visited:
                continue
            visited.add(tid)
            if z3.is_app(t):
                d = t.decl()
                if d.name() in names:
                    apps[tid] = t
                if d.name() in watch:
                    watched[tid] = t
                if node_sort is not None:
                    if t.sort().eq(node_sort):
                        nodes[tid] = t
                    if d.kind() == z3.Z3_OP_SEQ_NTH and t.arg(0).sort().eq(seqnode_sort):
                        nths[tid] = t
                stack.extend(t.children())
            elif z3.is_quantifier(t):
                stack.append(t.body())
        res = (apps, nodes, nths, watched)
        cache[fid] = (f, res)
        return res

    def close(self, formulas, depth=2, extra_terms=()):
        """Return definitional axioms for the spec applications (and tree axioms for Node terms) in `formulas`."""
        by_name = {f'spec.{n}': s for n, s in self.specs.items()}
        lex_names = {f.name() for f in self._lex.values()}
        self._scan_names = set(by_name) | lex_names
        opaque = getattr(self, 'current_opaque', ())
        seen_apps = set()
        axioms = []
        frontier = list(formulas) + list(extra_terms)
        for _round in range(depth):
            apps = {}
            for f in frontier:
                for tid, app in self.scan(f)[0].items():
                    if tid not in seen_apps:
                        apps[tid] = app
            new = []
            for tid, app in apps.items():
                seen_apps.add(tid)
                nm = app.decl().name()
                if nm in lex_names:
                    new.append(self.lex_axiom(app))
                else:
                    sf = by_name[nm]
                    if sf.abstract or sf.name in opaque:
                        continue
                    new.append(self.unfold(sf, app))
            if not new:
                break
            axioms.extend(new)
            frontier = new
        for r in self.axiom_rules:
            axioms.extend(r(self, list(formulas) + axioms))
        return axioms

    # ---------------------------------------------------------------- contract calls
    def call_contract(self, eng, qual, recv, args, kwargs, st, node):
        view = getattr(self, 'str_views', {}).get(qual)
        if view is not None and self.strmode == 'str' and len(args) == 1:
            a = args[0]
            if isinstance(a, VPy) and isinstance(a.obj, str):
                a = const_value(a.obj)
            if isinstance(a, V) and isinstance(a.t, TOpt) and a.t.inner == STR:
                eng.may_raise(st, 'TypeError', a.t.is_none(a.term), f'{qual.split(".")[-1]}(None)')
                a = V(STR, a.t.val(a.term))
            if isinstance(a, V) and isinstance(a.t, TUnion) and 'AStr' in a.t.alts:
                eng.may_raise(st, 'TypeError', z3.Not(a.t.is_alt(a.term, 'AStr')), f'{qual.split(".")[-1]}() of a list value (unhashable)')
                a = V(STR, a.t.get(a.term, 'AStr'))
            if isinstance(a, V) and isinstance(a.t, TOpt) and isinstance(a.t.inner, TUnion) and 'AStr' in a.t.inner.alts:
                u = a.t.inner
                eng.may_raise(st, 'TypeError', z3.Or(a.t.is_none(a.term), z3.Not(u.is_alt(a.t.val(a.term), 'AStr'))),
                              f'{qual.split(".")[-1]}() of None or of a list value')
                a = V(STR, u.get(a.t.val(a.term), 'AStr'))
            if isinstance(a, VNone):
                eng.may_raise(st, 'TypeError', z3.BoolVal(True), f'{qual.split(".")[-1]}(None)')
                return fresh(STR)
            if isinstance(a, V) and a.t == STR:
                return V(STR, view(a.term))
        c = self.contracts.get(qual)
        if c is None:
            raise Unsupported(f'call to {qual} which has no contract', node)
        info = self.fn_info(qual)
        fa = info.node.args
        pnames = [a.arg for a in fa.posonlyargs + fa.args]
        defaults = dict(zip(pnames[len(pnames) - len(fa.defaults):], fa.defaults))
        for a, d in zip(fa.kwonlyargs, fa.kw_defaults):
            pnames.append(a.arg)
            if d is not None:
                defaults[a.arg] = d
        bound = {}
        names = list(pnames)
        if info.kind == 'classmethod':
            names = names[1:]
        elif info.kind == 'method':
            if recv is None:
                # called through the class with an explicit receiver, or on implicit self of the caller
                raise Unsupported(f'unbound call of method {qual}', node)
            bound[names[0]] = recv
            names = names[1:]
        pos = list(args)
        for n in names:
            if pos:
                bound[n] = pos.pop(0)
            elif n in kwargs:
                bound[n] = kwargs[n]
            elif n in defaults:
                bound[n] = const_value(ast.literal_eval(defaults[n]))
            else:
                raise Unsupported(f'call to {qual}: missing argument {n}', node)
        # extra (free-variable) parameters of nested functions are taken from the caller's environment
        for p in c.params:
            if p not in bound:
                if p in st.env:
                    bound[p] = st.env[p]
                else:
                    raise Unsupported(f'call to {qual}: cannot bind contract parameter {p}', node)
        for p, pt in c.params.items():
            if isinstance(pt, ObjType):
                if not isinstance(bound[p], VObj):
                    raise Unsupported(f'call to {qual}: {p} must be an object', node)
            else:
                bound[p] = eng.coerce(bound[p], pt, node)
        pre = st.copy()
        pre.env = dict(bound)
        pre.old_env = dict(bound)
        pre.old_heap = dict(st.heap)
        for r in c.requires:
            eng.oblige(st, 'call-pre', eng.spec_bool(r, pre), f'precondition of {qual.split(".")[-1]}: {r}')
        if qual == eng.c.qual and not eng.spec_mode:
            # a recursive call: its own contract is assumed, which is sound only if the recursion is well-founded
            if not c.decreases:
                raise Unsupported(f'recursive call of {qual} without a decreases clause in its contract', node)
            entry = st.copy()
            entry.env = dict(st.old_env)
            entry.heap = dict(st.old_heap)
            m0 = eng.coerce(eng.spec_eval(c.decreases, entry), INT).term
            m1 = eng.coerce(eng.spec_eval(c.decreases, pre), INT).term
            eng.oblige(st, 'rec-variant', z3.And(m0 >= 0, m1 >= 0, m1 < m0), f'recursive call decreases the measure {c.decreases}')
        havocked = []
        for m in c.modifies:
            on, f = m.split('.')
            actual = bound[on]
            key = (actual.name, f)
            havocked.append((key, st.heap[key]))
            st.heap[key] = fresh(st.heap[key].t, f'{actual.name}.{f}')
        post = st.copy()
        post.env = dict(bound)
        post.old_env = dict(bound)
        post.old_heap = pre.heap
        if c.returns is not None:
            res = fresh(c.returns, f'{qual.split(".")[-1]}')
        else:
            res = VNone()
        post.env['result'] = res
        gs = list(st.guards)
        # Known-finding regions: every function is verified for inputs outside the regions of the active known findings
        # (stated in the evidence). Inside its own proof a callee's postcondition is weakened by its region; for its
        # callers the region is excluded by that global assumption, so the postcondition is assumed as it stands.
        region = None
        for e in list(c.ensures) + list(c.defines):
            fact = eng.spec_bool(e, post)
            if region is not None:
                fact = z3.Or(region, fact)
            st.pc.append(z3.Implies(z3.And(*gs), fact) if gs else fact)
        for exc, cond in c.raises.items():
            r = z3.Bool(fresh_name(f'raises.{exc}'))
            if cond:
                ctext = cond[4:] if cond.startswith('iff:') else cond
                cv = eng.spec_bool(ctext, pre)
                if cond.startswith('iff:'):
                    r = cv
                else:
                    st.pc.append(z3.Implies(r, cv))
            eng.may_raise(st, exc, r, f'call to {qual.split(".")[-1]}')
        if gs:
            # a call inside a short-circuit / conditional expression happens only under its guards: otherwise the field is unchanged
            for key, before in havocked:
                after = st.heap[key]
                st.heap[key] = V(after.t, z3.If(z3.And(*gs), after.term, before.term))
        return res

    def comprehension(self, eng, e, st):
        """[val(x) for x in S if cond(x)]  is replaced by  F(args, S, 0)  for the recursive spec fold F named in the
        contract, after checking that F is that fold: F(S, len) == [] and, for an arbitrary position i,
        F(S, i) == ([val(S[i])] if cond(S[i]) else []) ++ F(S, i+1)   (the induction step of comprehension == F(S, 0))."""
        if eng.spec_mode:
            raise Unsupported('comprehension in a spec', e)
        eng.comp_ord = getattr(eng, 'comp_ord', 0) + 1
        k = eng.comp_ord
        spec = getattr(eng.c, 'comps', {}).get(k)
        if spec is None:
            raise Unsupported(f'comprehension #{k} has no fold in the contract', e)
        if len(e.generators) != 1 or e.generators[0].is_async:
            raise Unsupported('comprehension with several generators', e)
        g = e.generators[0]
        if not isinstance(g.target, ast.Name) or (spec.get('var') and spec['var'] != g.target.id):
            raise Unsupported(f'comprehension #{k} is keyed to variable {spec.get("var")!r}', e)
        seq = eng.ev(g.iter, st)
        for r in getattr(self, 'iter_rules', []):
            conv = r(eng, seq, st, e)
            if conv is not None:
                seq = conv
                break
        if not (isinstance(seq, V) and isinstance(seq.t, TSeq)):
            raise Unsupported(f'comprehension over {seq!r}', e)
        sf = self.specs[spec['fold']]
        rt = sf.ret
        i = z3.Int(fresh_name(f'_ci{k}'))
        s2 = st.copy()
        s2.pc.append(z3.And(i >= 0, i < z3.Length(seq.term)))
        x = V(seq.t.elem, seq.term[i])
        s2.env[g.target.id] = x
        s2.env[f'_cseq{k}'] = seq
        s2.env[f'_ci{k}'] = V(INT, i)
        for fact in spec.get('assume_elem', []):
            s2.pc.append(eng.spec_bool(fact, s2))
        cond = z3.BoolVal(True)
        for c in g.ifs:
            cv = eng.truthy(eng.ev(c, s2), c)
            cond = z3.And(cond, cv)
            s2.guards.append(cv)
        saved_state = getattr(eng, 'cur_state', None)
        eng.cur_state = s2              # obligations raised while evaluating the element are guarded by the filter
        try:
            val = eng.coerce(eng.ev(e.elt, s2), rt.elem, e)
        finally:
            eng.cur_state = saved_state
        s2.guards = list(st.guards)
        outs = eng.flush_raises(s2)
        if outs:
            raise Unsupported('comprehension element may raise a caught/allowed exception', e)
        args = spec.get('args', '')

        def F(idx_text, state):
            return eng.spec_eval(f"{spec['fold']}({args + ', ' if args else ''}_cseq{k}, {idx_text})", state)
        lhs = F(f'_ci{k}', s2).term
        s3 = s2.copy()
        s3.env[f'_ci{k}'] = V(INT, i + 1)
        nxt = F(f'_ci{k}', s3).term
        step = lhs == z3.Concat(z3.If(cond, z3.Unit(val.term), z3.Empty(rt.sort())), nxt)
        eng.oblige_raw(s2, 'comprehension-step', step, f'comprehension #{k} agrees with one unfolding of {spec["fold"]} at an arbitrary position')
        s4 = st.copy()
        s4.env[f'_cseq{k}'] = seq
        s4.env[f'_ci{k}'] = V(INT, z3.Length(seq.term))
        eng.oblige_raw(s4, 'comprehension-base', z3.Length(F(f'_ci{k}', s4).term) == 0, f'{spec["fold"]} is empty at the end of the sequence')
        s5 = st.copy()
        s5.env[f'_cseq{k}'] = seq
        return F('0', s5)


def eng_str_t(world):
    return STR if world.strmode == 'str' else CPS


def _store_ctx(node):
    n = ast.parse(ast.unparse(node)).body[0].value
    for x in ast.walk(n):
        if hasattr(x, 'ctx'):
            x.ctx = ast.Load()
    n.ctx = ast.Store()
    ast.copy_location(n, node)
    return n
