"""Whole-package frame / ownership / effect analysis (DESIGN.md section 6) and the structural obligations built on it.

All of it is read from the ASTs of /repo/soupsieve/*.py on every run.  Regions:
  local/fresh  - created in this activation (list/dict/set literals, comprehensions, constructor calls)
  owned        - `self` of per-call classes (CSSMatch, CSSParser, _Selector, _FakeParent) and objects under construction in __init__
  shared       - module globals, class attributes, instances created at module/class level and everything reachable from them
Obligations (each is reported with the offending file:line when refuted):
  F1/F2 no store, del or mutating call targets a tree node (anything reachable from a bs4 object)       [C04]
  F3    no store / mutating call targets a shared object; lru_cache'd functions return immutable values  [C14]
  F4    code under `if self.debug:` only prints                                                          [C20]
  F6    import-time code never evaluates an attribute of the (possibly half-initialised) module bs4      [C16]
"""
from __future__ import annotations
import ast
import os
from . import extract
from .world import REPO

MODULES = ['soupsieve.__init__', 'soupsieve.css_match', 'soupsieve.css_parser', 'soupsieve.css_types', 'soupsieve.util', 'soupsieve.pretty',
           'soupsieve.__meta__']
MUTATORS = {'append', 'extend', 'insert', 'pop', 'remove', 'clear', 'update', 'setdefault', 'sort', 'reverse', 'popitem', 'add', 'discard',
            '__setitem__', '__delitem__', '__setattr__', '__delattr__',
            # bs4 tree mutation API
            'extract', 'decompose', 'replace_with', 'replaceWith', 'wrap', 'unwrap', 'insert_before', 'insert_after', 'smooth', 'clear',
            'replace_with_children', 'setup', 'append', 'extend'}
PER_CALL_CLASSES = {'CSSMatch', 'CSSParser', '_Selector', '_FakeParent', 'SelectorSyntaxError'}


def module_tree(mod):
    name = mod.replace('.__init__', '')
    tree, path = extract.module_ast(name, REPO)
    return tree, os.path.relpath(path, REPO)


def functions(tree, prefix=''):
    """Yield (qualname, FunctionDef, enclosing ClassDef or None)."""
    for n in tree.body:
        if isinstance(n, ast.FunctionDef):
            yield prefix + n.name, n, None
            yield from nested(n, prefix + n.name + '.', None)
        elif isinstance(n, ast.ClassDef):
            for m in n.body:
                if isinstance(m, ast.FunctionDef):
                    yield f'{prefix}{n.name}.{m.name}', m, n
                    yield from nested(m, f'{prefix}{n.name}.{m.name}.', n)


def nested(fn, prefix, cls):
    for n in ast.walk(fn):
        if isinstance(n, ast.FunctionDef) and n is not fn:
            yield prefix + n.name, n, cls


def root_name(e):
    while isinstance(e, (ast.Attribute, ast.Subscript, ast.Call)):
        e = e.value if not isinstance(e, ast.Call) else e.func
    return e.id if isinstance(e, ast.Name) else None


def fresh_locals(fn):
    """Names bound (only) to freshly created containers/objects in this function."""
    fresh, other = set(), set()
    for n in ast.walk(fn):
        if isinstance(n, (ast.Assign, ast.AnnAssign)):
            tgts = n.targets if isinstance(n, ast.Assign) else [n.target]
            v = n.value
            is_fresh = isinstance(v, (ast.List, ast.Dict, ast.Set, ast.ListComp, ast.DictComp, ast.SetComp, ast.Tuple)) or \
                (isinstance(v, ast.Call) and isinstance(v.func, ast.Name) and v.func.id in ('list', 'dict', 'set', '_Selector', 'tuple')) or \
                (isinstance(v, ast.Call) and isinstance(v.func, ast.Attribute) and v.func.attr in ('groupdict', 'copy'))
            for t in tgts:
                if isinstance(t, ast.Name):
                    (fresh if is_fresh else other).add(t.id)
    return fresh - other


def module_globals(tree):
    names = set()
    for n in tree.body:
        if isinstance(n, (ast.Assign, ast.AnnAssign)):
            tgts = n.targets if isinstance(n, ast.Assign) else [n.target]
            for t in tgts:
                if isinstance(t, ast.Name):
                    names.add(t.id)
        elif isinstance(n, (ast.Import, ast.ImportFrom)):
            for a in n.names:
                names.add((a.asname or a.name).split('.')[0])
        elif isinstance(n, (ast.ClassDef, ast.FunctionDef)):
            names.add(n.name)
    return names


def shared_instance_classes(tree):
    """Classes with instances created at module or class level and stored (so every later `self` of theirs may be shared)."""
    shared = set()

    def scan(stmts):
        for n in stmts:
            if isinstance(n, (ast.Assign, ast.AnnAssign)) and n.value is not None:
                for c in ast.walk(n.value):
                    if isinstance(c, ast.Call) and isinstance(c.func, ast.Name):
                        shared.add(c.func.id)
            elif isinstance(n, ast.ClassDef):
                scan(n.body)
    scan(tree.body)
    return shared


def writes(fn):
    """Yield (lineno, description, target_root, kind) for every store / del / mutating call in fn (nested defs excluded)."""
    skip = set()
    for n in ast.walk(fn):
        if isinstance(n, ast.FunctionDef) and n is not fn:
            for x in ast.walk(n):
                skip.add(id(x))
    for n in ast.walk(fn):
        if id(n) in skip:
            continue
        if isinstance(n, (ast.Assign, ast.AugAssign, ast.AnnAssign, ast.Delete)):
            tgts = n.targets if isinstance(n, (ast.Assign, ast.Delete)) else [n.target]
            for t in tgts:
                for tt in (t.elts if isinstance(t, (ast.Tuple, ast.List)) else [t]):
                    if isinstance(tt, (ast.Attribute, ast.Subscript)):
                        yield n.lineno, ast.unparse(tt), root_name(tt), 'store', tt
        elif isinstance(n, ast.Call) and isinstance(n.func, ast.Attribute) and n.func.attr in MUTATORS:
            yield n.lineno, ast.unparse(n.func), root_name(n.func.value), 'call', n.func
        elif isinstance(n, ast.Global):
            for g in n.names:
                yield n.lineno, f'global {g}', g, 'global', n


def ob(oid, desc, ok, detail=None, confirmed=False):
    return dict(id=oid, desc=desc, result='proved' if ok else 'refuted', backend='ast-frame-analysis', time=0.0, detail=detail, confirmed=confirmed)


def tree_rooted(fn, cls):
    """Names in fn that may denote tree nodes: parameters / loop variables / results of navigation.  Conservative: every
    name that is not `self`/`cls`, not a fresh local and not a module global is treated as possibly tree-rooted."""
    return None


def F2_no_tree_writes(ctx=None):
    """C04: no function of css_match.py stores into, deletes from or calls a mutator on anything but
    `self.<field>` of the per-call matcher, its memo lists, or a fresh local."""
    tree, path = module_tree('soupsieve.css_match')
    glob = module_globals(tree)
    out = []
    for qual, fn, cls in functions(tree):
        fresh = fresh_locals(fn)
        bad = []
        for line, text, root, kind, node in writes(fn):
            if root in ('self',) and cls is not None and cls.name in PER_CALL_CLASSES | {'_DocumentNav'}:
                # allowed: plain fields of the per-call object, and appends to its memo lists
                inner = node.value if kind == 'call' else node
                if isinstance(inner, ast.Attribute) and isinstance(inner.value, ast.Name) and inner.value.id == 'self':
                    continue
                bad.append((line, text))
            elif root in fresh:
                continue
            else:
                bad.append((line, text))
        out.append(ob(f'C04.F2/{qual}', f'{qual}: no store/del/mutating call on a tree node or foreign object', not bad,
                      detail=[f'{path}:{ln}: {t}' for ln, t in bad], confirmed=False))
    return out


def F3_no_shared_writes(ctx=None):
    """C14: no function reachable from the API writes shared state (module globals, class attributes, instances stored at
    module/class level); functions wrapped in lru_cache return immutable values only."""
    out = []
    for mod in MODULES:
        tree, path = module_tree(mod)
        glob = module_globals(tree)
        shared_cls = shared_instance_classes(tree)
        for qual, fn, cls in functions(tree):
            fresh = fresh_locals(fn)
            params = {a.arg for a in fn.args.args + fn.args.kwonlyargs + fn.args.posonlyargs}
            bad = []
            for line, text, root, kind, node in writes(fn):
                if kind == 'global':
                    bad.append((line, text))
                    continue
                if root == 'self':
                    if cls is not None and fn.name == '__init__':
                        continue                      # object under construction
                    if cls is not None and cls.name in shared_cls and cls.name not in PER_CALL_CLASSES:
                        bad.append((line, text + f'   (instances of {cls.name} are created at module/class level: shared)'))
                    continue
                if root == 'cls' or (cls is not None and root == cls.name):
                    bad.append((line, text + '   (class attribute)'))
                    continue
                if root in fresh or root in params:
                    continue
                if root in glob and root not in fresh:
                    bad.append((line, text + '   (module global)'))
            out.append(ob(f'C14.F3/{mod.split(".")[-1]}.{qual}', f'{qual}: writes only local, fresh or owned objects', not bad,
                          detail=[f'{path}:{ln}: {t}' for ln, t in bad]))
            # lru_cache'd functions: returned values must be immutable (str joins / Immutable constructors)
            decos = [ast.unparse(d) for d in fn.decorator_list]
            if any('lru_cache' in d for d in decos):
                badret = []
                for n in ast.walk(fn):
                    if isinstance(n, ast.Return) and n.value is not None:
                        v = n.value
                        okv = (isinstance(v, ast.Call) and isinstance(v.func, ast.Attribute) and v.func.attr in ('join', 'SoupSieve')) or \
                              (isinstance(v, ast.Call) and isinstance(v.func, ast.Name) and v.func.id in ('str', 'tuple', 'frozenset')) or \
                              isinstance(v, (ast.Constant, ast.JoinedStr))
                        if not okv:
                            badret.append((n.lineno, ast.unparse(v)))
                out.append(ob(f'C14.F5/{mod.split(".")[-1]}.{qual}', f'{qual} is memoised by lru_cache: it returns an immutable value', not badret,
                              detail=[f'{path}:{ln}: returns {t}' for ln, t in badret]))
    return out


def F6_import_time_bs4(ctx=None):
    """C16: no import-time expression (module/class level statements, decorators, defaults, base classes) evaluates
    anything of the module bs4, and no module-level `from bs4... import`."""
    out = []
    for mod in MODULES:
        tree, path = module_tree(mod)
        bad = []
        future_ann = any(isinstance(n, ast.ImportFrom) and n.module == '__future__' and any(a.name == 'annotations' for a in n.names)
                         for n in tree.body)

        def uses_bs4(expr):
            for x in ast.walk(expr):
                if isinstance(x, ast.Name) and x.id == 'bs4' and isinstance(x.ctx, ast.Load):
                    return x
            return None

        def scan(stmts, where):
            for n in stmts:
                if isinstance(n, ast.ImportFrom) and n.module and n.module.split('.')[0] == 'bs4':
                    bad.append((n.lineno, f'from {n.module} import ... at {where}'))
                elif isinstance(n, ast.Import):
                    for a in n.names:
                        if a.name.startswith('bs4.'):
                            bad.append((n.lineno, f'import {a.name} at {where} (imports a submodule of the half-initialised package)'))
                elif isinstance(n, ast.FunctionDef):
                    for e in n.decorator_list + n.args.defaults + [d for d in n.args.kw_defaults if d is not None]:
                        u = uses_bs4(e)
                        if u is not None:
                            bad.append((u.lineno, f'decorator/default of {n.name}: {ast.unparse(e)}'))
                    if not future_ann:
                        for a in n.args.args + n.args.kwonlyargs:
                            if a.annotation is not None and uses_bs4(a.annotation) is not None:
                                bad.append((a.lineno, f'annotation of {n.name}.{a.arg} evaluated at import'))
                        if n.returns is not None and uses_bs4(n.returns) is not None:
                            bad.append((n.lineno, f'return annotation of {n.name} evaluated at import'))
                elif isinstance(n, ast.ClassDef):
                    for e in n.bases + n.decorator_list + [k.value for k in n.keywords]:
                        u = uses_bs4(e)
                        if u is not None:
                            bad.append((u.lineno, f'class {n.name}: base/decorator {ast.unparse(e)}'))
                    scan(n.body, f'class {n.name}')
                elif isinstance(n, (ast.AnnAssign,)) and n.value is None:
                    if not future_ann and uses_bs4(n.annotation) is not None:
                        bad.append((n.lineno, 'annotation evaluated at import'))
                else:
                    if isinstance(n, ast.AnnAssign):
                        exprs = [n.value] + ([] if future_ann else [n.annotation])
                    elif isinstance(n, (ast.If, ast.Try, ast.With, ast.For, ast.While)):
                        scan([x for x in ast.iter_child_nodes(n) if isinstance(x, ast.stmt)], where)
                        exprs = [x for x in ast.iter_child_nodes(n) if isinstance(x, ast.expr)]
                    else:
                        exprs = [x for x in ast.iter_child_nodes(n) if isinstance(x, ast.expr)]
                    for e in exprs:
                        u = uses_bs4(e)
                        if u is not None:
                            bad.append((u.lineno, f'{where}: {ast.unparse(n)[:80]}'))
        scan(tree.body, 'module level')
        out.append(ob(f'C16.F6/{mod}', f'{mod}: nothing of bs4 is evaluated while the module is imported', not bad,
                      detail=[f'{path}:{ln}: {t}' for ln, t in bad]))
        # no output / warnings at import time: module-level calls to print / warnings.warn
        noisy = []
        for n in tree.body:
            if isinstance(n, ast.Expr) and isinstance(n.value, ast.Call):
                f = ast.unparse(n.value.func)
                if f in ('print', 'warnings.warn', 'warn', 'sys.stdout.write', 'sys.stderr.write', 'logging.warning'):
                    noisy.append((n.lineno, f))
        out.append(ob(f'C16.O2/{mod}', f'{mod}: no output or warning statement at module level', not noisy,
                      detail=[f'{path}:{ln}: {t}' for ln, t in noisy]))
    return out


def F4_debug_only_prints(ctx=None):
    """C20: every statement guarded by `if self.debug:` is a print (or a nested if of prints); `debug` is read nowhere else."""
    out = []
    tree, path = module_tree('soupsieve.css_parser')
    for qual, fn, cls in functions(tree):
        bad = []
        reads = 0
        guarded = set()
        for n in ast.walk(fn):
            if isinstance(n, ast.If) and ast.unparse(n.test) == 'self.debug':
                for x in ast.walk(n.test):
                    guarded.add(id(x))
                for stmt in n.body + n.orelse:
                    for x in ast.walk(stmt):
                        if isinstance(x, ast.stmt) and not isinstance(x, ast.If):
                            okp = isinstance(x, ast.Expr) and isinstance(x.value, ast.Call) and isinstance(x.value.func, ast.Name) and x.value.func.id == 'print'
                            if not okp:
                                bad.append((x.lineno, ast.unparse(x)[:70]))
        for n in ast.walk(fn):
            if isinstance(n, ast.Attribute) and n.attr == 'debug' and isinstance(n.ctx, ast.Load) and id(n) not in guarded:
                bad.append((n.lineno, 'self.debug read outside an `if self.debug:` test'))
        if any(isinstance(n, ast.Attribute) and n.attr == 'debug' for n in ast.walk(fn)):
            out.append(ob(f'C20.F4/{qual}', f'{qual}: DEBUG only guards print statements', not bad, detail=[f'{path}:{ln}: {t}' for ln, t in bad]))
    return out
