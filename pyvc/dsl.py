"""Sidecar contract DSL and spec-function decorators."""
from __future__ import annotations
from .sym import Contract

CONTRACTS: list[Contract] = []


def contract(qual, joined_locals=(), comps=None, match_params=None, defines=(), replay_hook=None, assumes=(), opaque_specs=(),
             prefer_cvc5=False, **kw):
    c = Contract(qual, **kw)
    c.prefer_cvc5 = prefer_cvc5      # string-list VCs that cvc5 decides in milliseconds and z3's sequence solver in a minute
    c.opaque_specs = tuple(opaque_specs)
    c.assumes = list(assumes)
    c.replay_hook = replay_hook
    c.defines = list(defines)
    c.match_params = match_params or {}
    c.joined_locals = tuple(joined_locals)
    c.comps = comps or {}
    CONTRACTS.append(c)
    return c


def abstract(fn):
    """Spec function left uninterpreted in SMT (its Python body is used only for replay/bounded checks)."""
    fn._pyvc_abstract = True
    return fn


def prim(fn):
    """Vocabulary primitive: concrete implementation here, symbolic implementation registered in pyvc."""
    fn._pyvc_prim = True
    return fn
