"""Sidecar contract DSL and spec-function decorators."""
from __future__ import annotations
from .sym import Contract

CONTRACTS: list[Contract] = []


def contract(qual, joined_locals=(), comps=None, match_params=None, defines=(), replay_hook=None, assumes=(), opaque_specs=(),
             prefer_cvc5=False, uses=(), **kw):
    c = Contract(qual, **kw)
    c.uses = list(uses)
    c.prefer_cvc5 = prefer_cvc5      # string-list VCs that cvc5 decides in milliseconds and z3's sequence solver in a minute
    c.opaque_specs = tuple(opaque_specs)
    c.assumes = list(assumes)
    c.replay_hook = replay_hook
    c.defines = list(defines)
    c.match_params = match_params or {}
    c.joined_locals = tuple(joined_locals)
    c.comps = comps or {}
    CONTRACTS.append(c)
    return c


def abstract(fn):
    """Spec function left uninterpreted in SMT (its Python body is used only for replay/bounded checks)."""
    fn._pyvc_abstract = True
    return fn


def named(fn):
    """Spec function kept as a defined symbol in SMT (f(args) == body added on demand, like a recursive one) instead of being
    inlined at every use: same meaning, smaller verification conditions."""
    fn._pyvc_named = True
    return fn


def prim(fn):
    """Vocabulary primitive: concrete implementation here, symbolic implementation registered in pyvc."""
    fn._pyvc_prim = True
    return fn


# ---- object invariant of the matcher (C04.O3): required at entry and ensured at exit of every CSSMatch method, and part
# of every loop invariant; functions that can reach match_default / match_lang / match_indeterminate may modify the caches
CACHE_INV = ['default_cache_ok(self, self.cached_default_forms, 0)', 'lang_cache_ok(self, self.cached_meta_lang, 0)',
             'indet_cache_ok(self, self.cached_indeterminate_forms, 0)']
CACHE_FIELDS = ['self.cached_default_forms', 'self.cached_meta_lang', 'self.cached_indeterminate_forms']
TOUCHES_CACHES = {'match_selectors', 'match_nth', 'match_subselectors', 'match_past_relations', 'match_future_child', 'match_future_relations',
                  'match_relations', 'match', 'select', 'closest', 'filter', 'match_default', 'match_lang', 'match_indeterminate'}


# the memoising leaves own one table each: their frame is that table only, so their callers keep the other two invariants by framing
LEAF = {'match_default': 0, 'match_lang': 1, 'match_indeterminate': 2}


def apply_object_invariant():
    for c in CONTRACTS:
        if c.qual.startswith('lemma.'):
            continue
        selft = c.params.get('self')
        if selft is None or getattr(selft, 'name', '') != 'CSSMatch':
            continue
        name = c.qual.split('.')[-1].split('@')[0]
        if getattr(c, '_inv_applied', False):
            continue
        c._inv_applied = True
        if name == '__init__':
            c.ensures = list(c.ensures) + CACHE_INV
            continue
        if name in TOUCHES_CACHES:
            leaf = LEAF.get(name)
            inv = [CACHE_INV[leaf]] if leaf is not None else CACHE_INV
            fields = [CACHE_FIELDS[leaf]] if leaf is not None else CACHE_FIELDS
            if leaf is None:
                # these functions only carry the invariant through their calls: it stays an uninterpreted predicate of the table
                c.opaque_specs = tuple(c.opaque_specs) + ('default_cache_ok', 'lang_cache_ok', 'indet_cache_ok')
            c.requires = list(c.requires) + inv
            c.ensures = list(c.ensures) + inv
            c.modifies = list(c.modifies) + [f for f in fields if f not in c.modifies]
            for k, spec in c.loops.items():
                spec['invariant'] = list(spec.get('invariant', [])) + inv
