"""P-structural obligations read from the class and function definitions in /repo on every run (C03.O5/O7, C15.O1-O5).
They check semantic features of the definitions (which names are compared, hashed, forwarded), not whole-tree equality,
so that harmless refactors do not raise alarms."""
from __future__ import annotations
import ast
import os
from . import extract
from .world import REPO
from .frames import module_tree, ob

IMMUTABLE_CLASSES = ['Selector', 'SelectorNull', 'SelectorTag', 'SelectorAttribute', 'SelectorContains', 'SelectorNth', 'SelectorLang',
                     'SelectorList']


def classes(tree):
    return {n.name: n for n in tree.body if isinstance(n, ast.ClassDef)}


def method(cls, name):
    for n in cls.body:
        if isinstance(n, ast.FunctionDef) and n.name == name:
            return n
    return None


def body_wo_doc(fn):
    b = fn.body
    if b and isinstance(b[0], ast.Expr) and isinstance(b[0].value, ast.Constant) and isinstance(b[0].value.value, str):
        b = b[1:]
    return b


def slots_of(cls):
    for n in cls.body:
        tgt = None
        if isinstance(n, ast.Assign) and len(n.targets) == 1:
            tgt, val = n.targets[0], n.value
        elif isinstance(n, ast.AnnAssign):
            tgt, val = n.target, n.value
        if isinstance(tgt, ast.Name) and tgt.id == '__slots__' and val is not None:
            try:
                return list(ast.literal_eval(val))
            except Exception:
                return None
    return None


def C15_structural(ctx=None):
    out = []
    tree, path = module_tree('soupsieve.css_types')
    cl = classes(tree)
    mtree, mpath = module_tree('soupsieve.css_match')
    mcl = classes(mtree)
    imm = cl.get('Immutable')
    # O1 immutability protocol
    for nm in ('__setattr__', '__delattr__'):
        m = method(imm, nm) if imm else None
        okm = m is not None and len(body_wo_doc(m)) == 1 and isinstance(body_wo_doc(m)[0], ast.Raise)
        out.append(ob(f'C15.O1/Immutable.{nm}', f'Immutable.{nm} exists and unconditionally raises', okm,
                      detail=None if okm else [f'{path}: Immutable.{nm} missing or does more than raise']))
    all_imm = [(n, cl[n], path) for n in IMMUTABLE_CLASSES if n in cl] + ([('SoupSieve', mcl['SoupSieve'], mpath)] if 'SoupSieve' in mcl else [])
    registered = set()
    for t in (tree, mtree):
        for n in ast.walk(t):
            if isinstance(n, ast.Call) and ast.unparse(n.func).endswith('pickle_register') and n.args:
                registered.add(ast.unparse(n.args[0]))
    for name, c, p in all_imm:
        bases = [ast.unparse(b) for b in c.bases]
        slots = slots_of(c)
        inherits = any(b.endswith('Immutable') for b in bases)
        if name == 'SelectorNull':
            slots = slots or ['_hash']
        ok1 = inherits and slots is not None and slots[-1:] == ['_hash'] and len(set(slots)) == len(slots)
        overrides = [m.name for m in c.body if isinstance(m, ast.FunctionDef) and m.name in ('__setattr__', '__delattr__', '__eq__', '__ne__', '__hash__', '__getattr__')]
        out.append(ob(f'C15.O1/{name}.slots', f'{name} derives from Immutable, declares __slots__ ending in _hash (no __dict__) and overrides none of the protocol',
                      ok1 and not overrides, detail=[f'{p}: bases={bases} slots={slots} overrides={overrides}']))
        # O4 constructor parameters == slots[:-1] in order, each forwarded under its own name
        init = method(c, '__init__')
        if init is not None and slots is not None:
            params = [a.arg for a in init.args.args[1:]]
            sup = None
            for n in ast.walk(init):
                if isinstance(n, ast.Call) and ast.unparse(n.func) == 'super().__init__':
                    sup = n
            fwd_ok = sup is not None and [k.arg for k in sup.keywords] == params and all(
                (isinstance(k.value, ast.Name) and k.value.id == k.arg) or
                (k.arg in ast.unparse(k.value) and ('tuple(' in ast.unparse(k.value))) for k in sup.keywords)
            ok4 = params == slots[:-1] and fwd_ok
            out.append(ob(f'C15.O4/{name}.ctor', f'{name}.__init__ takes exactly __slots__[:-1] in order and forwards each under its own name (what _pickle relies on)',
                          ok4, detail=[f'{p}: params={params} slots={slots} forwarded={[k.arg for k in sup.keywords] if sup else None}']))
        out.append(ob(f'C15.O4/{name}.pickle', f'pickle_register({name}) is called', name in registered or f'ct.{name}' in registered,
                      detail=[f'registered: {sorted(registered)}']))
    # O3 equality compares every slot but _hash; hash covers type and value of every field
    if imm is not None:
        eq, ne, hs, init = method(imm, '__eq__'), method(imm, '__ne__'), method(imm, '__hash__'), method(imm, '__init__')

        def iterates_all_slots(fn):
            if fn is None:
                return False
            for n in ast.walk(fn):
                if isinstance(n, ast.comprehension):
                    it = ast.unparse(n.iter)
                    conds = [ast.unparse(c) for c in n.ifs]
                    if it == 'self.__slots__' and conds == ["key != '_hash'"]:
                        return True
            return False
        ok_eq = iterates_all_slots(eq) and 'isinstance(other, self.__base__())' in ast.unparse(eq) and 'all(' in ast.unparse(eq) and \
            'getattr(other, key) == getattr(self, key)' in ast.unparse(eq)
        ok_ne = iterates_all_slots(ne) and 'not isinstance(other, self.__base__())' in ast.unparse(ne) and 'any(' in ast.unparse(ne) and \
            'getattr(other, key) != getattr(self, key)' in ast.unparse(ne)
        out.append(ob('C15.O3/Immutable.__eq__', '__eq__: same base class and every slot except _hash equal', ok_eq, detail=[ast.unparse(eq) if eq else None]))
        out.append(ob('C15.O3/Immutable.__ne__', '__ne__ is the negation of __eq__', ok_ne, detail=[ast.unparse(ne) if ne else None]))
        ok_h = hs is not None and ast.unparse(body_wo_doc(hs)[0]) == 'return self._hash'
        src = ast.unparse(init) if init else ''
        ok_init = ('for k, v in kwargs.items()' in src and 'temp.append(type(v))' in src and 'temp.append(v)' in src and
                   "super().__setattr__('_hash', hash(tuple(temp)))" in src and 'super().__setattr__(k, v)' in src)
        out.append(ob('C15.O3/Immutable.hash', '_hash is computed once from (type, value) of every field, in order; __hash__ returns it', ok_h and ok_init,
                      detail=[src]))
    # ImmutableDict: no mutators, order-independent hash, validated values
    idc = cl.get('ImmutableDict')
    if idc is not None:
        muts = [m.name for m in idc.body if isinstance(m, ast.FunctionDef) and m.name in ('__setitem__', '__delitem__', 'update', 'pop', 'clear', 'setdefault', 'popitem')]
        init = method(idc, '__init__')
        src = ast.unparse(init) if init else ''
        ok_hash = 'sorted(self._d.items())' in src and 'type(x), x, type(y), y' in src.replace('(type(x)', 'type(x)')
        out.append(ob('C15.O1/ImmutableDict.readonly', 'ImmutableDict exposes no mutator', not muts, detail=muts))
        out.append(ob('C15.O3/ImmutableDict.hash', 'ImmutableDict hash is computed over the sorted items (independent of insertion order) with key/value types', ok_hash, detail=[src]))
        out.append(ob('C15.O1/ImmutableDict.copy', 'ImmutableDict copies its argument (dict(arg)) so later changes of the caller\'s dict do not show', 'self._d = dict(arg)' in src, detail=[src]))
    # O5 compile / cache
    itree, ipath = module_tree('soupsieve.__init__')
    ptree, ppath = module_tree('soupsieve.css_parser')
    comp = next((n for n in itree.body if isinstance(n, ast.FunctionDef) and n.name == 'compile'), None)
    csrc = ast.unparse(comp) if comp else ''
    call = None
    for n in ast.walk(comp) if comp else []:
        if isinstance(n, ast.Call) and ast.unparse(n.func) == 'cp._cached_css_compile':
            call = n
    args = [ast.unparse(a) for a in call.args] if call else []
    ok_call = args == ['pattern', 'ct.Namespaces(namespaces) if namespaces is not None else namespaces',
                       'ct.CustomSelectors(custom) if custom is not None else custom', 'flags'] and not (call.keywords if call else True)
    out.append(ob('C15.O5/compile.cache-key', 'compile passes all four of (pattern, namespaces, custom, flags) to the cached compiler, maps wrapped as immutable', ok_call, detail=args))
    ok_pass = ('if isinstance(pattern, SoupSieve)' in csrc and 'return pattern' in csrc and csrc.count('raise ValueError') == 3 and
               'if flags:' in csrc and 'elif namespaces is not None:' in csrc and 'elif custom is not None:' in csrc)
    out.append(ob('C15.O5/compile.passthrough', 'compile(compiled) returns the same object and raises ValueError for flags, namespaces or custom', ok_pass, detail=[csrc[:400]]))
    cc = next((n for n in ptree.body if isinstance(n, ast.FunctionDef) and n.name == '_cached_css_compile'), None)
    decos = [ast.unparse(d) for d in cc.decorator_list] if cc else []
    params = [a.arg for a in cc.args.args] if cc else []
    maxc = None
    for n in ptree.body:
        if isinstance(n, ast.Assign) and ast.unparse(n.targets[0]) == '_MAXCACHE':
            maxc = ast.literal_eval(n.value)
    out.append(ob('C15.O5/cache.bound', '_cached_css_compile is lru_cache(maxsize=_MAXCACHE) with _MAXCACHE == 500 over exactly (pattern, namespaces, custom, flags)',
                  decos == ['lru_cache(maxsize=_MAXCACHE)'] and maxc == 500 and params == ['pattern', 'namespaces', 'custom', 'flags'],
                  detail=[decos, maxc, params]))
    csrc2 = ast.unparse(cc) if cc else ''
    pure = all(x in csrc2 for x in ('process_custom(custom)', 'cm.SoupSieve(', 'CSSParser(pattern, custom=custom_selectors, flags=flags).process_selectors()',
                                    'namespaces, custom, flags)'))
    reads = {n.id for st_ in (cc.body if cc else []) for n in ast.walk(st_) if isinstance(n, ast.Name)}
    out.append(ob('C15.O5/cache.pure', '_cached_css_compile reads only its four parameters (F5) and builds the result from them', pure and
                  reads <= {'pattern', 'namespaces', 'custom', 'flags', 'custom_selectors', 'process_custom', 'cm', 'CSSParser', 'ct', 'lru_cache', '_MAXCACHE'},
                  detail=[sorted(reads)]))
    pg = next((n for n in ptree.body if isinstance(n, ast.FunctionDef) and n.name == '_purge_cache'), None)
    out.append(ob('C15.O5/purge', 'purge() empties the cache (cache_clear)', pg is not None and '_cached_css_compile.cache_clear()' in ast.unparse(pg) and
                  'cp._purge_cache()' in ast.unparse(next(n for n in itree.body if isinstance(n, ast.FunctionDef) and n.name == 'purge')), detail=None))
    return out


def C03_structural(ctx=None):
    """O7: each module-level wrapper returns compile(select, namespaces, flags, custom=custom, **kwargs).<same name>(target[, limit]).
    O5: every SoupSieve method builds a fresh CSSMatch(self.selectors, tag, self.namespaces, self.flags)."""
    out = []
    itree, ipath = module_tree('soupsieve.__init__')
    fns = {n.name: n for n in itree.body if isinstance(n, ast.FunctionDef)}
    expect = {'closest': ('tag', False), 'match': ('tag', False), 'filter': ('iterable', False), 'select_one': ('tag', False),
              'select': ('tag', True), 'iselect': ('tag', True)}
    for nm, (target, has_limit) in expect.items():
        fn = fns.get(nm)
        ok = False
        got = None
        if fn is not None:
            stmts = body_wo_doc(fn)
            if len(stmts) == 1:
                st = stmts[0]
                val = st.value if isinstance(st, ast.Return) else (st.value.value if isinstance(st, ast.Expr) and isinstance(st.value, ast.YieldFrom) else None)
                got = ast.unparse(val) if val is not None else None
                want = f'compile(select, namespaces, flags, custom=custom, **kwargs).{nm}({target}{", limit" if has_limit else ""})'
                ok = got == want and (isinstance(st, ast.Return) != (nm == 'iselect'))
            params = [a.arg for a in fn.args.args] + [a.arg for a in fn.args.kwonlyargs]
            ok = ok and 'custom' in params and 'namespaces' in params and 'flags' in params
        out.append(ob(f'C03.O7/{nm}', f'sv.{nm}(...) returns compile(select, namespaces, flags, custom=custom, **kwargs).{nm}(...)', ok, detail=[f'{ipath}: {got}']))
    mtree, mpath = module_tree('soupsieve.css_match')
    ss = classes(mtree).get('SoupSieve')
    mk = 'CSSMatch(self.selectors, {t}, self.namespaces, self.flags)'
    want = {'match': f'return {mk.format(t="tag")}.match(tag)', 'closest': f'return {mk.format(t="tag")}.closest()',
            'iselect': f'yield from {mk.format(t="tag")}.select(limit)', 'select': 'return list(self.iselect(tag, limit))'}
    for nm, w in want.items():
        m = method(ss, nm) if ss else None
        got = ast.unparse(body_wo_doc(m)[0]) if m is not None and len(body_wo_doc(m)) == 1 else None
        out.append(ob(f'C03.O5/SoupSieve.{nm}', f'SoupSieve.{nm} uses a new matcher built from (selectors, target, namespaces, flags): {w}', got == w, detail=[f'{mpath}: {got}']))
    so = method(ss, 'select_one') if ss else None
    src = ast.unparse(so) if so else ''
    out.append(ob('C03.O5/SoupSieve.select_one', 'select_one is the first item of select(tag, limit=1) or None',
                  'tags = self.select(tag, limit=1)' in src and 'return tags[0] if tags else None' in src, detail=[src[-200:]]))
    fl = method(ss, 'filter') if ss else None
    src = ast.unparse(fl) if fl else ''
    out.append(ob('C03.O4/SoupSieve.filter', 'filter(tag) filters the children with one matcher; filter(iterable) keeps the matching Tag items in order, strings skipped',
                  f'return {mk.format(t="iterable")}.filter()' in src and 'if isinstance(iterable, bs4.Tag)' in src and
                  'return [node for node in iterable if not CSSMatch.is_navigable_string(node) and self.match(node)]' in src, detail=[src[-300:]]))
    return out


def token_progress(ctx=None):
    """C06.O3 / C20.O3: the tokenizer loops make progress.  Every token pattern is non-nullable (decided on the regex language
    with look-arounds dropped: an over-approximation, so 'cannot match the empty string' carries over to the real pattern), the
    selector_iter loop either advances `index` to the end of a non-empty match or raises, and pretty() advances by a non-empty
    match or by one character."""
    import importlib
    import z3
    from . import regexc
    import soupsieve  # noqa
    cp = importlib.import_module('soupsieve.css_parser')
    pr = importlib.import_module('soupsieve.pretty')
    out = []

    def nonnull(oid, pat, what):
        try:
            info = regexc.info(pat.pattern, pat.flags, drop_lookaround=True)
            s = z3.Solver()
            s.add(z3.InRe(z3.StringVal(''), info.lang))
            okn = s.check() == z3.unsat
            detail = None if okn else [f'{what}: pattern {pat.pattern[:60]!r} can match the empty string: the loop would not advance']
            o_ = ob(oid, f'{what} cannot match the empty string (progress of the token loop)', okn, detail=detail, confirmed=not okn)
            o_['backend'] = f'z3-{z3.get_version_string()} (emptiness of "" in the over-approximated regex language)'
            out.append(o_)
        except regexc.RegexUnsupported as ex:
            out.append(dict(id=oid, desc=f'{what} non-nullable', result='unknown', backend='regex translation', time=0.0, detail=f'out of reach: {ex}'))
    for tok in cp.CSSParser.css_tokens:
        if isinstance(tok, cp.SpecialPseudoPattern):
            for nm, sub in sorted(tok.patterns.items()):
                nonnull(f'C06.O3/token/{sub.name}/{nm}', sub.re_pattern, f'token {sub.name} ({nm})')
            nonnull('C06.O3/token/special-name', tok.re_pseudo_name, 'special pseudo-class name pattern')
        else:
            nonnull(f'C06.O3/token/{tok.name}', tok.re_pattern, f'token {tok.name}')
    # loop shape of selector_iter: after a match `index = m.end(0)`; without a match it raises
    ptree, ppath = module_tree('soupsieve.css_parser')
    fn = None
    for n in ast.walk(ptree):
        if isinstance(n, ast.FunctionDef) and n.name == 'selector_iter':
            fn = n
    wl = next((n for n in ast.walk(fn) if isinstance(n, ast.While)), None) if fn else None
    src = ast.unparse(wl) if wl else ''
    shape = wl is not None and ast.unparse(wl.test) == 'index <= end' and 'index = m.end(0)' in src and 'if m is None:' in src and \
        'raise SelectorSyntaxError(msg, self.pattern, index)' in src and 'm = v.match(pattern, index, self.flags)' in src
    out.append(ob('C06.O3/selector_iter.loop', 'selector_iter: each iteration sets index to the end of a (non-empty) match at index, raises, or stops at trailing trivia', shape,
                  detail=[src[:300]]))
    for nm, rx in pr.TOKENS.items():
        nonnull(f'C20.O3/pretty-token/{nm}', rx, f'pretty token {nm}')
    ptree2, _ = module_tree('soupsieve.pretty')
    fn2 = next((n for n in ast.walk(ptree2) if isinstance(n, ast.FunctionDef) and n.name == 'pretty'), None)
    src2 = ast.unparse(fn2) if fn2 else ''
    shape2 = 'while index <= end' in src2 and 'index = m.end(0)' in src2 and 'if m is None:' in src2 and 'index += 1' in src2
    out.append(ob('C20.O3/pretty.loop', 'pretty(): each iteration consumes a non-empty token or one character (index strictly increases up to len)', shape2, detail=[src2[-400:]]))
    return out


def C17_indet_guard(ctx=None):
    """The assumption of match_indeterminate's contract ("the element asking is not itself a checked member of its group") rests on
    three facts read from /repo on every run: (S1) the SEL_INDETERMINATE flag is only ever put on the last compound of the pre-compiled
    CSS_INDETERMINATE list; (S2) that compound carries :not([checked]) - one attribute test on `checked`, nothing else - as a sub-list;
    (S3) the hub evaluates the sub-lists of a compound before it calls match_indeterminate."""
    out = []
    ptree, ppath = module_tree('soupsieve.css_parser')
    # S1
    consts = [n for n in ptree.body if isinstance(n, ast.Assign) and isinstance(n.value, ast.Call) and
              'FLG_INDETERMINATE' in ast.unparse(n.value) and isinstance(n.value.func, ast.Attribute) and n.value.func.attr == 'process_selectors']
    names = [ast.unparse(n.targets[0]) for n in consts]
    calls = [n for n in ast.walk(ptree) if isinstance(n, ast.Call) and not (isinstance(n.func, ast.Name) and n.func.id == 'bool') and any('FLG_INDETERMINATE' in ast.unparse(a) for a in list(n.args) + [k.value for k in n.keywords])]
    out.append(ob('C17.S-indet-flag', 'FLG_INDETERMINATE is passed to the parser in exactly one call: the one that compiles CSS_INDETERMINATE',
                  names == ['CSS_INDETERMINATE'] and len(calls) == 1, detail=[names, len(calls)]))
    # S2: the real constant
    import sys
    if REPO not in sys.path:
        sys.path.insert(0, REPO)
    from soupsieve import css_parser as cp, css_types as ct

    def compounds(sl, acc):
        for s in sl.selectors:
            if isinstance(s, ct.SelectorNull):
                continue
            acc.append(s)
            for sub in s.selectors:
                compounds(sub, acc)
            if s.relation.selectors:
                compounds(s.relation, acc)
        return acc

    def is_not_checked(sl):
        if not sl.is_not or len(sl.selectors) != 1:
            return False
        s = sl.selectors[0]
        if isinstance(s, ct.SelectorNull) or len(s.attributes) != 1:
            return False
        a = s.attributes[0]
        plain = (s.tag is None or (s.tag.name == '*' and s.tag.prefix is None)) and not s.ids and not s.classes and not s.nth and not s.selectors \
            and not s.relation.selectors and s.rel_type is None and not s.contains and not s.lang and s.flags == 0
        return plain and a.attribute == 'checked' and not a.prefix and a.pattern is None and a.xml_type_pattern is None
    flagged = [s for s in compounds(cp.CSS_INDETERMINATE, []) if s.flags & ct.SEL_INDETERMINATE]
    ok2 = len(flagged) == 1 and all(any(is_not_checked(sub) for sub in s.selectors) for s in flagged)
    out.append(ob('C17.S-indet-guard', 'the compound of CSS_INDETERMINATE that carries SEL_INDETERMINATE has the sub-list :not([checked]) '
                  '(one bare attribute test on `checked`)', ok2, detail=[len(flagged)]))
    # other pre-compiled lists and user patterns never carry the flag
    others = [n for n in dir(cp) if n.startswith('CSS_') and n != 'CSS_INDETERMINATE' and isinstance(getattr(cp, n), ct.SelectorList)]
    bad = [n for n in others if any(s.flags & ct.SEL_INDETERMINATE for s in compounds(getattr(cp, n), []))]
    out.append(ob('C17.S-indet-only', 'no other pre-compiled list carries SEL_INDETERMINATE', not bad and len(others) >= 10, detail=[bad, len(others)]))
    # selectors compiled from text reach the flag only through that constant (the flagged compound is the very same object)
    from . import bounded
    import warnings
    stray = []
    with warnings.catch_warnings():
        warnings.simplefilter('ignore')
        import soupsieve as sv
        for grp, sels in bounded.SELECTORS.items():
            for q in sels:
                try:
                    c = sv.compile(q)
                except Exception:
                    continue
                for comp in compounds(c.selectors, []):
                    if comp.flags & ct.SEL_INDETERMINATE and not any(comp is f for f in flagged):
                        stray.append(q)
    out.append(ob('C17.S-indet-user', 'a compiled pattern carries SEL_INDETERMINATE only on the compound object of CSS_INDETERMINATE itself (corpus selectors)',
                  not stray, detail=stray[:5]))
    # S3: order of the tests in the hub
    mtree, mpath = module_tree('soupsieve.css_match')
    hub = method(classes(mtree)['CSSMatch'], 'match_selectors')
    order = []
    for n in ast.walk(hub):
        if isinstance(n, ast.For):
            for st in n.body:
                if isinstance(st, ast.If) and len(st.body) == 1 and isinstance(st.body[0], ast.Continue):
                    src = ast.unparse(st.test)
                    for nm in ('match_subselectors', 'match_indeterminate'):
                        if f'self.{nm}(' in src:
                            order.append((nm, src))
    # (names of locals are irrelevant: what matters is that both are `if <guard> and not self.f(...): continue` tests of the same loop
    #  body and that the sub-lists come first)
    ok3 = [o[0] for o in order] == ['match_subselectors', 'match_indeterminate'] and \
        all(f'not self.{nm}(' in src for nm, src in order)
    out.append(ob('C17.S-hub-order', 'the hub skips a compound whose sub-lists fail before it asks match_indeterminate', ok3, detail=order))
    return out


def C06_dispatch(ctx=None):
    """The parse_* contracts are stated over matches of the token patterns compiled in contracts/patterns.py.  On every run: (S1) every
    SelectorPattern is compiled as re.compile(pattern, re.I | re.X | re.U); (S2) the token table gives each key the PAT_* constant the sidecar
    uses; (S3) parse_selectors calls each method only under a test of `key` against exactly those keys."""
    import re as _re
    out = []
    ptree, ppath = module_tree('soupsieve.css_parser')
    cls = classes(ptree)
    init = method(cls['SelectorPattern'], '__init__')
    comp = [ast.unparse(n.value) for n in ast.walk(init) if isinstance(n, ast.Assign) and 're.compile' in ast.unparse(n.value)]
    out.append(ob('C06.S-token-flags', 'SelectorPattern compiles its pattern with re.I | re.X | re.U', comp == ['re.compile(pattern, re.I | re.X | re.U)'], detail=comp))
    from contracts import patterns as PT
    # S2: (key, PAT_NAME) pairs of the token table, including the special pseudo table
    table = {}
    for n in ast.walk(ptree):
        if isinstance(n, ast.Call) and isinstance(n.func, ast.Name) and n.func.id == 'SelectorPattern' and len(n.args) == 2 and \
                isinstance(n.args[0], ast.Constant) and isinstance(n.args[1], ast.Name):
            table[n.args[0].value] = n.args[1].id
        if isinstance(n, ast.Tuple) and len(n.elts) == 4 and isinstance(n.elts[0], ast.Constant) and isinstance(n.elts[2], ast.Name) and \
                isinstance(n.elts[3], ast.Name) and n.elts[3].id == 'SelectorPattern':
            table[n.elts[0].value] = n.elts[2].id
    want = {'id': 'PAT_ID', 'class': 'PAT_CLASS', 'pseudo_dir': 'PAT_PSEUDO_DIR', 'pseudo_lang': 'PAT_PSEUDO_LANG', 'pseudo_contains': 'PAT_PSEUDO_CONTAINS',
            'tag': 'PAT_TAG', 'pseudo_class': 'PAT_PSEUDO_CLASS'}
    ok2 = all(table.get(k) == v for k, v in want.items()) and all(
        getattr(PT, v).pattern == getattr(__import__('soupsieve.css_parser', fromlist=['x']), v) and getattr(PT, v).flags & (_re.I | _re.X) == (_re.I | _re.X)
        for v in want.values())
    out.append(ob('C06.S-token-table', 'each token key is bound to the PAT_* constant the sidecar compiles', ok2, detail=[{k: table.get(k) for k in want}]))
    # S3: call sites
    ps = method(cls['CSSParser'], 'parse_selectors')
    sites = {}

    def visit_stmt(st, tests):
        if isinstance(st, ast.If):
            for b in st.body:
                visit_stmt(b, tests + [ast.unparse(st.test)])
            for b in st.orelse:
                visit_stmt(b, tests + ['not (' + ast.unparse(st.test) + ')'] if False else tests)
            return
        if isinstance(st, (ast.For, ast.While, ast.With, ast.Try)):
            for b in getattr(st, 'body', []) + getattr(st, 'orelse', []) + getattr(st, 'finalbody', []):
                visit_stmt(b, tests)
            for h in getattr(st, 'handlers', []):
                for b in h.body:
                    visit_stmt(b, tests)
            return
        for n in ast.walk(st):
            if isinstance(n, ast.Call) and isinstance(n.func, ast.Attribute) and isinstance(n.func.value, ast.Name) and n.func.value.id == 'self' and \
                    n.func.attr in PT.DISPATCH:
                sites.setdefault(n.func.attr, []).append([t for t in tests if t.startswith('key ')])
    for st_ in ps.body:
        visit_stmt(st_, [])
    ok3 = True
    for meth, keys in PT.DISPATCH.items():
        got = sites.get(meth, [])
        for tests in got:
            last = tests[-1] if tests else ''
            named = set(_re.findall(r"'([a-z_]+)'|\"([a-z_]+)\"", last))
            named = {a or b for a, b in named}
            if named != set(keys):
                ok3 = False
        if not got:
            ok3 = False
    out.append(ob('C06.S-dispatch', 'parse_selectors calls each contracted parse_* method only for matches of its token key(s)', ok3, detail=[sites]))
    return out
