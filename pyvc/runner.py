"""Property-level driver: runs the obligations of one property, applies known findings, replays refutations,
writes evidence, prints VIOLATION / KNOWN-FINDING / UNDECIDED lines and returns the exit code.

Exit codes: 0 held; 1 violation; 2 undecided; 3 engine/self-check failure.
"""
from __future__ import annotations
import importlib
import json
import multiprocessing as mp
import os
import sys
import time
import traceback

HERE = os.path.dirname(os.path.dirname(os.path.abspath(__file__)))
if HERE not in sys.path:
    sys.path.insert(0, HERE)

_world = None


def _init():
    global _world
    if _world is not None:          # built by the parent before the pool was forked
        return
    from . import verify
    _world = verify.build_world()


def world():
    global _world
    if _world is None:
        _init()
    return _world


def load_known_findings():
    with open(os.path.join(HERE, 'known_findings.json')) as f:
        return json.load(f)


def task_verify(args):
    qual, timeout_ms, shard, skip = args
    from . import verify, replay
    w = world()
    try:
        rep = verify.verify_function(w, qual, timeout_ms=timeout_ms, want_models=True, shard=shard, skip=skip)
    except Exception as ex:  # pragma: no cover
        return dict(function=qual, status='engine-error', error=f'{type(ex).__name__}: {ex}', trace=traceback.format_exc(),
                    obligations=[], covers=[])
    return rep


def task_mutant(args):
    qual, point, timeout_ms, skip = args
    from . import verify, mutate, extract
    from .world import REPO
    w = world()
    try:
        info = extract.find_function(qual, REPO)
        desc_box = {}

        def mut(fnode):
            new, desc = mutate.apply(fnode, point)
            desc_box['d'] = desc
            return new
        rep = verify.verify_function(w, qual, timeout_ms=timeout_ms, cover=False, mutate=mut, skip=skip, stop_on_fail=True)
        rep['obligations'] = [o for o in rep['obligations'] if o['result'] != 'known-finding']
        bad = [o for o in rep['obligations'] if o['result'] != 'proved']
        caught = rep['status'] != 'ok' or bool(bad)
        how = rep['status'] if rep['status'] != 'ok' else (bad[0]['id'] + ':' + bad[0]['result'] if bad else 'still verifies')
        return dict(function=qual, mutant=desc_box.get('d', str(point)), caught=caught, how=how)
    except Exception as ex:  # pragma: no cover
        return dict(function=qual, mutant=str(point), caught=True, how=f'engine exception {type(ex).__name__}: {ex}')


class Result:
    def __init__(self, prop_id, tier, seed):
        self.prop_id = prop_id
        self.tier = tier
        self.seed = seed
        self.functions = []       # function reports
        self.structural = []      # dict(id, desc, result, detail)
        self.lemmas = []
        self.bounded = []         # dict(name, evaluations, distinct, failures, bound, exhaustive)
        self.validation = []      # A-sweeps
        self.mustfail = []
        self.violations = []      # dict(obligation, replay_path, confirmed)
        self.known = []
        self.undecided = []
        self.errors = []
        self.t0 = time.time()


def run_property(prop_id, tier='quick', seed=0, jobs=None):
    mod = importlib.import_module(f'props.{prop_id}')
    res = Result(prop_id, tier, seed)
    jobs = jobs or min(16, os.cpu_count() or 4)
    kf = load_known_findings()
    timeout_ms = getattr(mod, 'TIMEOUT_MS', {}).get(tier, 10000 if tier == 'quick' else 60000)
    # the budget only matters for obligations that are hard or fail: on the unchanged tree the slowest query takes z3 about 8 s alone,
    # and a generous ceiling keeps verdicts from flipping when the machine is busy (observed once at 4x oversubscription with 30 s)
    timeout_ms = max(timeout_ms, 60000 if tier == 'quick' else 120000)
    fns = list(getattr(mod, 'FUNCTIONS', []))
    ctx = mp.get_context('fork')
    if tier == 'thorough':
        os.environ['PYVC_SECOND_OPINION'] = '1'
    # The verification world (specs, contracts, vocabulary read from /repo) is built once here and inherited by the forked workers.  If it
    # cannot be built - e.g. a change in /repo removed a name a sidecar file imports - that is reported once as an engine error instead of
    # every worker dying in its initializer (which made the pool respawn them forever).
    try:
        world()
    except Exception as ex:
        print(f'ENGINE-ERROR property={prop_id} the verification world cannot be built from the current tree: {type(ex).__name__}: {ex}')
        print(f'{prop_id} {tier}: nothing decided')
        return 3
    # (a pool that replaces its workers after every task - tried for reproducibility - forks from a helper thread while this thread runs
    #  the bounded sweeps; one such run hung for 15 minutes in a fresh sandbox, so workers are long-lived again)
    with ctx.Pool(jobs, initializer=_init) as pool:
        # 1. function contracts
        from props import _common as _pc
        shards = dict(getattr(_pc, 'COMMON_SHARDS', {}), **getattr(mod, 'SHARDS', {}))     # a property may override the common split
        vtasks = []
        for q in fns:
            n = shards.get(q, shards.get(q.split('.')[-1], 1))
            skip = tuple((e['match'].get('kind'), e['match'].get('desc_contains')) for e in kf.get('findings', [])
                         if e.get('match', {}).get('function') == q and e['match'].get('desc_contains'))
            vtasks.extend((q, timeout_ms, (k, n) if n > 1 else None, skip) for k in range(n))
        async_v = pool.map_async(task_verify, vtasks, chunksize=1)
        # 2. must-fail battery (points computed here from the real source)
        mf_tasks = []
        if fns and getattr(mod, 'MUSTFAIL', True):
            from . import extract, mutate
            from .world import REPO
            per_fn = getattr(mod, 'MUSTFAIL_PER_FN', {}).get(tier, 2 if tier == 'quick' else None)
            for q in fns:
                try:
                    info = extract.find_function(q, REPO)
                except KeyError:
                    continue
                skip = tuple((e['match'].get('kind'), e['match'].get('desc_contains')) for e in kf.get('findings', [])
                             if e.get('match', {}).get('function') == q and e['match'].get('desc_contains'))
                for pt in mutate.select(info.node, seed, per_fn):
                    mf_tasks.append((q, pt, min(timeout_ms, 5000), skip))
        async_m = pool.map_async(task_mutant, mf_tasks, chunksize=1) if mf_tasks else None
        # 3. structural / lemma / bounded / validation parts run in this process meanwhile
        for name in ('STRUCTURAL', 'LEMMAS', 'BOUNDED', 'VALIDATION'):
            for fn in getattr(mod, name, []):
                try:
                    out = fn(dict(tier=tier, seed=seed, world=world, jobs=jobs))
                except Exception as ex:
                    res.errors.append(f'{name}:{getattr(fn, "__name__", fn)}: {type(ex).__name__}: {ex}\n{traceback.format_exc()}')
                    continue
                getattr(res, name.lower()).extend(out if isinstance(out, list) else [out])
        # merge shards of the same function
        merged = {}
        budget = getattr(mod, 'WALL_BUDGET_S', {}).get(tier, 1500 if tier == 'quick' else 4 * 3600)
        try:
            vres = async_v.get(timeout=budget)
        except Exception as ex:     # a worker died (solver crash) or the budget was exceeded: engine failure, never a hang
            pool.terminate()
            res.errors.append(f'verification workers did not finish: {type(ex).__name__}: {ex}')
            vres = []
        for rep in vres:
            m = merged.get(rep['function'])
            if m is None:
                merged[rep['function']] = rep
            else:
                m['obligations'].extend(rep['obligations'])
                m['covers'].extend(rep.get('covers', []))
                m['time'] = max(m.get('time') or 0, rep.get('time') or 0)
                if rep['status'] != 'ok':
                    m['status'], m['error'] = rep['status'], rep.get('error')
        res.functions = list(merged.values())
        for rep in res.functions:
            if rep['status'] == 'ok' and 'n_generated' in rep and len(rep['obligations']) != rep['n_generated']:
                res.errors.append(f"{rep['function']}: {len(rep['obligations'])} obligations solved but {rep['n_generated']} generated")
        try:
            res.mustfail = async_m.get(timeout=budget) if async_m else []
        except Exception as ex:
            pool.terminate()
            res.mustfail = []
            res.errors.append(f'must-fail workers did not finish: {type(ex).__name__}: {ex}')
    return finish(mod, res, kf)


def kf_matches(entry, fn_rep, ob):
    m = entry.get('match', {})
    # an entry applies to proof obligations only if it names the function (entries for bounded sweeps carry `bounded` instead and
    # must never absorb an obligation)
    if not m.get('function') or m.get('bounded'):
        return False
    if m['function'] != fn_rep['function']:
        return False
    if m.get('kind') and m['kind'] != ob['kind']:
        return False
    if m.get('desc_contains') and m['desc_contains'] not in ob['desc']:
        return False
    return bool(m)


def replay_witness(w):
    """Run a known finding's witness natively: returns True when the defect is still observable."""
    try:
        if 'python' in w:
            ns = {}
            exec(w['python'], ns)
            return bool(ns.get('DEFECT_OBSERVED'))
        from . import replay
        fn = replay.resolve(w['call'])
        try:
            got = fn(*w.get('args', []))
        except Exception as ex:
            got = f'raises {type(ex).__name__}'
        return got != w.get('expected')
    except Exception:
        return False


def finish(mod, res: Result, kf):
    prop_id = res.prop_id
    lines = []
    rdir = os.path.join(HERE, 'replays', prop_id)
    os.makedirs(rdir, exist_ok=True)
    for old in os.listdir(rdir):
        os.unlink(os.path.join(rdir, old))
    n_ob = n_dis = n_known = 0
    backends = {}
    second = {}
    solver_time = 0.0
    samples = []
    findings = [e for e in kf.get('findings', []) if prop_id in ([e.get('property')] + e.get('also', []))]
    known_hit = {}
    for rep in res.functions:
        if rep['status'] in ('engine-error', 'missing'):
            res.errors.append(f"{rep['function']}: {rep['status']}: {rep.get('error')}")
            continue
        if rep['status'] == 'out-of-reach':
            # the function left the accepted subset: its obligations are undecided unless a bounded stand-in covers it
            res.undecided.append(dict(obligation=f"{rep['function']}/*", reason='out of reach: ' + rep.get('error', '')))
            continue
        if not rep['obligations']:
            res.errors.append(f"{rep['function']}: zero obligations generated (vacuity guard)")
        for ob in rep['obligations']:
            entry = next((e for e in findings if kf_matches(e, rep, ob)), None)
            if entry is not None and ob['result'] != 'proved':
                n_known += 1
                known_hit.setdefault(entry['id'], entry)
                ob['result_reported'] = 'known-finding:' + entry['id']
                continue
            n_ob += 1
            solver_time += ob.get('time') or 0
            if ob['result'] == 'proved':
                n_dis += 1
                backends[ob['backend']] = backends.get(ob['backend'], 0) + 1
                if ob.get('second') is not None:
                    second[ob['second']] = second.get(ob['second'], 0) + 1
                if len(samples) < 6 and ob['kind'] in ('post', 'loop-preserve', 'no-raise', 'lemma'):
                    samples.append(dict(obligation=ob['id'], kind=ob['kind'], text=ob['desc'], backend=ob['backend'], time_s=ob['time']))
            elif ob['result'] == 'refuted':
                path = os.path.join(rdir, ob['id'].replace('/', '_').replace('#', '-') + '.json')
                rp = ob.get('replay') or {}
                confirmed = rp.get('status') == 'violation'
                with open(path, 'w') as f:
                    json.dump(dict(property=prop_id, obligation=ob['id'], function=rep['function'], file=rep.get('file'),
                                   line=ob['line'], kind=ob['kind'], text=ob['desc'], solver=ob['backend'], model=ob['model'],
                                   replay=rp, confirmed_on_real_code=confirmed,
                                   note=None if confirmed else 'no-failing-input-found: the obligation is refuted by the solver '
                                   'but the counter-model could not be turned into a failing call of the real function'), f, indent=1)
                res.violations.append(dict(obligation=ob['id'], replay=path, confirmed=confirmed))
            else:
                res.undecided.append(dict(obligation=ob['id'], reason='solver returned unknown / timeout'))
        # vacuity guard: a contract whose precondition excludes everything makes every obligation hold trivially.  It is an error when
        # NO return of the function is reachable; a single unreachable return line (e.g. the test-false exit of a `while x is None:` loop
        # that is always left by break, or a path the 2 s reachability query could not settle the same way twice) is only noted.
        rets = [c for c in rep.get('covers', []) if c['what'] == 'return']
        if rets and all(c['result'] == 'unreachable' for c in rets):
            res.errors.append(f"{rep['function']}: no return is reachable under the contract's precondition (vacuity guard)")
        dead_lines = {c['line'] for c in rets} - {c['line'] for c in rets if c['result'] != 'unreachable'}
        if dead_lines and not all(c['result'] == 'unreachable' for c in rets):
            rep['unreachable_return_lines'] = sorted(dead_lines)
    for part, label in ((res.structural, 'structural'), (res.lemmas, 'lemma')):
        for ob in part:
            entry = next((e for e in findings if e.get('match', {}).get('obligation') == ob['id']), None)
            if entry is not None and ob['result'] != 'proved':
                n_known += 1
                known_hit.setdefault(entry['id'], entry)
                continue
            n_ob += 1
            solver_time += ob.get('time') or 0
            if ob['result'] == 'proved':
                n_dis += 1
                backends[ob.get('backend', label)] = backends.get(ob.get('backend', label), 0) + 1
                if len(samples) < 10:
                    samples.append(dict(obligation=ob['id'], kind=label, text=ob['desc'], backend=ob.get('backend', label)))
            elif ob['result'] == 'refuted':
                path = os.path.join(rdir, ob['id'].replace('/', '_').replace('#', '-') + '.json')
                confirmed = bool(ob.get('confirmed'))
                with open(path, 'w') as f:
                    json.dump(dict(property=prop_id, obligation=ob['id'], kind=label, text=ob['desc'], detail=ob.get('detail'),
                                   confirmed_on_real_code=confirmed,
                                   note=None if confirmed else 'no-failing-input-found'), f, indent=1, default=str)
                res.violations.append(dict(obligation=ob['id'], replay=path, confirmed=confirmed))
            else:
                res.undecided.append(dict(obligation=ob['id'], reason=ob.get('detail', 'unknown')))
    b_evals = b_fail = 0
    for b in res.bounded:
        b_evals += b.get('evaluations', 0)
        for fail in b.get('failures', []):
            entry = next((e for e in findings if e.get('match', {}).get('bounded') == b['name'] and
                          e['match'].get('input_contains', '') in json.dumps(fail, default=str)), None)
            if entry is not None:
                known_hit.setdefault(entry['id'], entry)
                continue
            b_fail += 1
            if b_fail <= 5:
                path = os.path.join(rdir, f"bounded_{b['name']}_{b_fail}.json")
                with open(path, 'w') as f:
                    json.dump(dict(property=prop_id, obligation=f"bounded:{b['name']}", failing_input=fail, bound=b.get('bound'),
                                   confirmed_on_real_code=True), f, indent=1, default=str)
                res.violations.append(dict(obligation=f"bounded:{b['name']}", replay=path, confirmed=True))
    for v in res.validation:
        if v.get('failures'):
            res.errors.append(f"assumption validation sweep {v['name']} failed: {v['failures'][:2]}")
    # known findings: replay witnesses
    for e in findings:
        if replay_witness(e.get('witness', {})):
            lines.append(f"KNOWN-FINDING: property={prop_id} {e['id']}: {e['what']}")
            res.known.append(e['id'])
    # step 3 of DESIGN section 8: a refuted obligation whose counter-model could not be turned into a concrete call is
    # cross-linked with a concrete failing input found by the small-scope search of the same property in this run
    concrete = [v for v in res.violations if v['confirmed'] and v['obligation'].startswith('bounded:')]
    for v in res.violations:
        if not v['confirmed'] and concrete:
            try:
                with open(v['replay']) as f:
                    d = json.load(f)
                with open(concrete[0]['replay']) as f:
                    w_ = json.load(f)
                d['concrete_failing_input_from_small_scope_search'] = dict(obligation=w_.get('obligation'), failing_input=w_.get('failing_input'),
                                                                            bound=w_.get('bound'))
                d['confirmed_on_real_code'] = True
                d['note'] = ('the solver model was not concretised; a concrete failing input of the real code was found by the '
                             'small-scope evaluation of the same contract family in this run')
                with open(v['replay'], 'w') as f:
                    json.dump(d, f, indent=1, default=str)
                v['confirmed'] = True
            except Exception:
                pass
    for v in res.violations:
        tail = '' if v['confirmed'] else ' no-failing-input-found'
        lines.append(f"VIOLATION property={prop_id} replay={v['replay']} obligation={v['obligation']}{tail}")
    for u in res.undecided:
        lines.append(f"UNDECIDED property={prop_id} obligation={u['obligation']} ({u['reason']})")
    for e in res.errors:
        lines.append(f"ENGINE-ERROR property={prop_id} {e}")
    mf_caught = sum(1 for m in res.mustfail if m['caught'])
    weak = [m for m in res.mustfail if not m['caught']]
    wall = round(time.time() - res.t0, 2)
    all_discharged = n_ob > 0 and n_dis == n_ob and not res.undecided
    level = getattr(mod, 'LEVEL', 'proof')
    if level == 'proof' and not all_discharged:
        level = 'other'
    fn_list = [dict(function=r['function'], file=r.get('file'), lines=r.get('lines'), ast_hash=r.get('ast_hash'), status=r['status'],
                    obligations=len(r['obligations']), proved=sum(o['result'] == 'proved' for o in r['obligations']),
                    time_s=r.get('time'), **({'unreachable_return_lines': r['unreachable_return_lines']} if r.get('unreachable_return_lines') else {})) for r in res.functions]
    coverage = dict(
        obligations=n_ob, discharged=n_dis, known_finding_obligations=n_known,
        checker_cmd=f'./vcheck {prop_id} {res.tier}',
        trusted_base=list(getattr(mod, 'TRUSTED', [])),
        backends=backends, solver_time_s=round(solver_time, 2),
        second_opinion_cvc5=second or None,
        slowest_obligations=[dict(obligation=i, time_s=t, backend=b) for t, i, b in sorted(
            ((o.get('time') or 0, o['id'], o.get('backend')) for r in res.functions for o in r['obligations']), reverse=True)[:8]],
        functions_under_contract=fn_list,
        structural=[dict(id=o['id'], result=o['result'], desc=o['desc']) for o in res.structural][:60],
        lemmas=[dict(id=o['id'], result=o['result'], desc=o['desc']) for o in res.lemmas][:60],
        bounded=[{k: v for k, v in b.items() if k != 'failures'} | dict(failures=len(b.get('failures', []))) for b in res.bounded],
        bounded_evaluations=b_evals, bounded_label='bounded (never counted as proved)',
        assumption_validation=[{k: v for k, v in x.items() if k != 'failures'} | dict(failures=len(x.get('failures', []))) for x in res.validation],
        must_fail=dict(mutants=len(res.mustfail), caught=mf_caught,
                       still_verifying=[dict(function=m['function'], mutant=m['mutant']) for m in weak][:30]),
        samples=samples or [dict(note='no proved obligation to show')],
        evaluations=max(1, n_ob + b_evals), distinct_nontrivial=max(2, n_ob),
        rule='one case per generated verification condition (distinct obligation ids) plus, where listed, bounded evaluations',
        explanation=getattr(mod, 'EXPLANATION', '') + ('' if all_discharged else ' [this run: not every obligation discharged -> level reported as other]'),
        undecided=res.undecided[:20], known_findings=res.known,
    )
    kf_note = ['every function is verified for inputs outside the regions of the active known findings (' +
               ', '.join(e['id'] for e in kf.get('findings', [])) + '); inside its own proof a function\'s postcondition is weakened by its region, '
               'at call sites the region is excluded by this assumption']
    ev = dict(property_id=prop_id, tier=res.tier, seed=res.seed, level=level, coverage=coverage,
              assumptions=list(getattr(mod, 'ASSUMPTIONS', [])) + kf_note, wall_s=wall, violations=len(res.violations))
    # runs on deliberately changed trees (tools/run_seeded.sh) keep their evidence out of the committed directory
    edir = os.environ.get('VERIF_EVIDENCE_DIR') or os.path.join(HERE, 'evidence')
    os.makedirs(edir, exist_ok=True)
    with open(os.path.join(edir, f'{prop_id}.json'), 'w') as f:
        json.dump(ev, f, indent=1, default=str)
    for ln in lines:
        print(ln)
    print(f'{prop_id} {res.tier}: {n_dis}/{n_ob} obligations discharged ({backends}), {n_known} under known findings, '
          f'bounded evaluations {b_evals}, must-fail {mf_caught}/{len(res.mustfail)}, violations {len(res.violations)}, '
          f'undecided {len(res.undecided)}, errors {len(res.errors)}, {wall}s')
    if res.errors:
        return 3
    if res.violations:
        return 1
    if res.undecided:
        return 2
    return 0
