"""Bounded tier (DESIGN.md section 9): the same contract clauses, evaluated at run time on the REAL functions over
explicitly enumerated finite input spaces.  Labelled `bounded` everywhere; never counted as proved.

Also used as the replay search for refuted tree-level obligations: a failing (document, selector, element) triple
found here is a concrete violation on the real code.
"""
from __future__ import annotations
import itertools
import json
import multiprocessing as mp
import os
import random
import sys
import time
import traceback
import warnings

HERE = os.path.dirname(os.path.dirname(os.path.abspath(__file__)))
if HERE not in sys.path:
    sys.path.insert(0, HERE)

NS_MAPS = {
    'none': None,
    'svg': {'svg': 'http://www.w3.org/2000/svg', 'xlink': 'http://www.w3.org/1999/xlink', 'x': 'urn:x'},
    'default-html': {'': 'http://www.w3.org/1999/xhtml', 'svg': 'http://www.w3.org/2000/svg'},
    'default-x': {'': 'urn:x', 'y': 'urn:y'},
}

# ---------------------------------------------------------------------------------------------------- documents

HTML_DOCS = {
    'basic': '<html><head><title>t</title></head><body><div id="d1" class="a b"><p id="p1">one<b id="b1">two</b></p>'
             '<!--c--><p id="p2" title="T" class="b"></p>text<span id="s1" lang="">x</span></div><ul id="u"><li id="l1"></li>'
             '<li id="l2" class="a">z</li> <li id="l3"></li><!-- k --><li id="l4">w</li></ul></body></html>',
    'nows': '<div id="r"><p id="a"></p><p id="b"><i id="i"></i><i id="j"></i></p><span id="c"></span><p id="d">t</p></div>',
    'multiroot': '<p id="a">1</p><!--x--><p id="b">2</p>text<div id="c"><p id="e"></p></div>',
    'forms': '<html><body><form id="f1"><input id="i1" type="radio" name="g" checked><input id="i2" type="radio" name="g">'
             '<input id="i3" type="RADIO" name="h"><input id="i4" type="checkbox" indeterminate><input id="i5" type="submit">'
             '<button id="b1" type="SUBMIT">go</button><fieldset id="fs" disabled><legend id="lg"><input id="i6"></legend>'
             '<input id="i7"><select id="se"><optgroup id="og" disabled><option id="o1">a</option></optgroup><option id="o2" selected>b</option></select>'
             '</fieldset><textarea id="t1" placeholder="p"></textarea><input id="i8" placeholder="q" value=""><input id="i9" type="hidden" disabled>'
             '<input id="i10" required readonly><progress id="pr"></progress></form><form id="f2"><button id="b2">x</button>'
             '<input id="i11" type="radio" name="g"></form><input id="i12" type="radio" name="g"><a id="a1" href="#">l</a><area id="ar"></body></html>',
    'radio-order': '<html><body><form id="f1"><input id="a1" type="radio" name="g"><input id="a2" checked type="radio" name="g"></form>'
                   '<form id="f2"><input id="b1" name="h" type="radio"><input id="b2" name="h" checked type="radio"></form>'
                   '<form id="f3"><input id="c1" type="radio" name="k"><input id="c2" type="radio" checked name="k"></form>'
                   '<form id="f4"><input id="d1" type="radio" name="m"><input id="d2" name="m" type="radio" checked></form>'
                   '<form id="f5"><input id="e1" type="radio" name="n"><input id="e2" CHECKED="" TYPE="radio" NAME="n"><input id="e3" checked name="other" type="radio"></form>'
                   '<input id="g1" type="radio" name="q"><p><input id="g2" checked name="q" type="radio"></p><input id="g3" checked type="checkbox" name="q">'
                   '<form id="f6"><button id="s0" type="button">x</button><input id="s1" value="go" type="submit"><button id="s2" type="submit">y</button></form></body></html>',
    'ranges': '<body><input id="n1" type="number" min="1" max="10" value="5"><input id="n2" type="number" min="1" max="10" value="11">'
              '<input id="n3" max="5"><input id="n4" type="date" min="2000-01-01" value="1999-12-31"><input id="n5" type="date" min="2000-02-30" value="1999-12-31">'
              '<input id="n6" type="time" min="22:00" max="02:00" value="23:30"><input id="n7" type="time" min="22:00" max="02:00" value="12:00">'
              '<input id="n8" type="week" min="2004-W01" max="2004-W53" value="2004-W53"><input id="n9" type="month" max="2000-13" value="2000-12">'
              '<input id="n10" type="datetime-local" min="2000-01-01T00:00" value="2000-01-01T00:00"><input id="n11" type="range" min="-1.5" value="-.5">'
              '<input id="n12" type="number" min="1" value="x"><input id="n13" type="number" min="5" max="1" value="3">'
              '<input id="n14" type="time" min="10:00" max="10:00" value="10:01"><input id="n15" type="week" min="0999-W01" value="10000-W01"></body>',
    'lang': '<html><head><meta http-equiv="content-language" content="de-DE"></head><body><div id="a" lang="en"><p id="b" lang=""><i id="c">x</i></p>'
            '<p id="d" lang="en-US-x-twain"><b id="e"></b></p><p id="f" xml:lang="fr"></p></div><p id="g"></p>'
            '<iframe id="if"><html><head></head><body><p id="h"></p><div lang="zh-Hant-CN"><p id="k"></p></div></body></html></iframe></body></html>',
    'langmeta': '<html><head><meta class="no-js responsive" name="viewport"><meta http-equiv="Content-Language" content="de"></head><body><p id="a">x</p><div id="b" lang="en"><i id="c"></i></div>'
                '<iframe id="f1"><html><head><meta http-equiv="content-language" content="fr-CA"></head><body><p id="d">y</p><p id="e" lang="">z</p></body></html></iframe>'
                '<iframe id="f2"><html><head><meta content="it" http-equiv="content-language"><meta http-equiv="content-language" content="es"></head><body><p id="g"></p></body></html></iframe>'
                '<iframe id="f3"><p id="h">no head here</p></iframe>'
                '<iframe id="f4"><html><head><meta rel="a b" accesskey="k l" class="c d"><meta http-equiv="content-language"></head><body><p id="i"></p></body></html></iframe></body></html>',
    'dir': '<html dir="rtl"><body><p id="a" dir="ltr">x</p><p id="b" dir="auto">אbc</p><p id="c" dir="auto">123</p><bdi id="d">א</bdi>'
           '<input id="e" type="tel"><input id="f" type="text" dir="auto" value="ا"><textarea id="g" dir="auto">abc</textarea><span id="h"><b id="i"></b></span>'
           '<p id="j" dir="bogus"><i id="k"></i></p><iframe id="fr"><html><body><p id="m"></p></body></html></iframe><svg><circle id="n"/></svg></body></html>',
    'iframe': '<html><body><div id="o"><p id="p1">Testing text</p><iframe id="fr"><html><body><span id="in1">hidden <b id="in2">words</b></span>'
              '<form id="ff"><input id="r1" type="radio" name="n"><input id="r2" type="radio" name="n" checked></form></body></html></iframe></div>'
              '<div id="q"><iframe id="fr2"><html><body><p id="in3">x</p></body></html></iframe>tail</div>'
              '<iframe id="fr3"><html><body><div><p><input id="r3" type="radio" name="k"><input id="r4" type="radio" name="k" checked></p></div>'
              '<input id="r6" type="radio" name="n"></body></html></iframe><iframe id="fr4"><input id="r5" type="radio" name="z"></iframe></body></html>',
    'text': '<div id="a">aaa<p id="b">bbb<!--ccc--></p><![CDATA[ddd]]><?pi eee?>fff<span id="c"> \n\t</span><span id="d"><!-- x --></span><span id="e">a<b id="f"></b>b</span></div>',
    'attrs': '<div id="a" title="x&#10;" data-k="v w  z" CLASS="Up low" rel="a b"><p id="b" title="" type="Submit" lang="EN-us"></p>'
             '<p id="c" title="x-y" data-k="-"></p><p id="d" title="X" class=" s  t "></p><p id="e" title="ax(" class="q"></p></div>',
    'identical': '<ul id="u"><li class="x">same</li><li class="x">same</li><li class="x">same</li></ul><form><input type="submit"></form><form><input type="submit"></form>',
}

XML_DOCS = {
    'ns': '<?xml version="1.0"?><root xmlns="urn:x" xmlns:y="urn:y" xmlns:xlink="http://www.w3.org/1999/xlink" id="r"><a id="a" xlink:href="h" href="g" y:k="1">'
          '<y:a id="b" k="2"/><a xmlns="" id="c" xml:lang="en"><t id="d"/></a></a><Y:Z xmlns:Y="urn:y" id="e"/><a id="f" TYPE="x" type="Ab"/></root>',
    'svghtml': '<?xml version="1.0"?><html xmlns="http://www.w3.org/1999/xhtml" lang="en"><head/><body><p id="p" type="Text">x</p>'
               '<svg xmlns="http://www.w3.org/2000/svg" id="s"><circle id="c"/><t id="t1"/><t xmlns="urn:o" id="t2"/><t id="t3"/></svg><input id="i" type="radio"/></body></html>',
    'xforms': '<?xml version="1.0"?><html xmlns="http://www.w3.org/1999/xhtml"><body><form id="f"><input type="radio" name="a" Checked="x" id="x1"/>'
              '<input type="radio" name="a" id="x2"/><input Type="radio" name="b" checked="" id="x3"/><input type="radio" name="b" id="x4"/>'
              '<input type="radio" Name="c" checked="" id="x5"/><input type="radio" name="c" id="x6"/><input type="radio" name="d" checked="" id="x7"/>'
              '<input type="radio" name="d" id="x8"/></form><input type="radio" name="d" id="x9"/></body></html>',
    'xlang': '<?xml version="1.0"?><html xmlns="http://www.w3.org/1999/xhtml"><head><meta http-equiv="content-language" content="de-AT"/></head>'
             '<body><p id="a">x</p><div id="b" lang="en"><i id="c"/></div><p id="d" xml:lang="fr"/><svg xmlns="http://www.w3.org/2000/svg" id="s" xml:lang="nl"><t id="t"/></svg></body></html>',
    'plain': '<?xml version="1.0"?><doc id="r"><Item id="a" Title="T"><item id="b">x<!--c--><![CDATA[y]]></item></Item><x-y id="c"/><item id="d" lang="en" xml:lang="de"/></doc>',
}


def make_docs(tier='quick', seed=0, want=None):
    """Yield (label, soup, kind).  soupsieve is imported before bs4 (C16)."""
    import soupsieve  # noqa
    from bs4 import BeautifulSoup
    parsers = ['html.parser'] if tier == 'quick' else ['html.parser', 'lxml', 'html5lib']
    for name, markup in HTML_DOCS.items():
        if want and name not in want:
            continue
        for ps in parsers:
            with warnings.catch_warnings():
                warnings.simplefilter('ignore')
                yield f'{name}/{ps}', BeautifulSoup(markup, ps), 'html'
    if tier != 'quick' or (want and any(w in HTML_DOCS for w in want)):
        for name in (want or []) if tier == 'quick' else []:
            pass
    for name, markup in XML_DOCS.items():
        if want and name not in want:
            continue
        yield f'{name}/xml', BeautifulSoup(markup, 'xml'), 'xml'
    # html5lib gives namespaces in HTML: always include one such document
    if not want or 'svg5' in want:
        yield 'svg5/html5lib', BeautifulSoup('<html><body><svg id="s" viewBox="0 0 1 1"><circle id="c" xlink:href="#x"/></svg><p id="p" HREF="y" Title="t">x</p>'
                                             '<math id="m"><mi id="mi">x</mi></math><input id="i" type="radio" checked><iframe id="f"></iframe></body></html>', 'html5lib'), 'html5'
    # systematic small trees (html.parser): all shapes up to n element nodes, text/comment interleaved
    n_max = 3 if tier == 'quick' else 4
    if not want or 'small' in want:
        for k, markup in enumerate(small_trees(n_max)):
            yield f'small{k}', BeautifulSoup(markup, 'html.parser'), 'html'
    # API-built oddities: detached element, odd attribute values
    if not want or 'api' in want:
        s = BeautifulSoup('<div id="a"><p id="b" class="x y">t</p><p id="c">u</p></div>', 'html.parser')
        el = s.find(id='b').extract()
        yield 'api/detached', el, 'html'
        s3 = BeautifulSoup('<form><input id="dr" type="radio" name="x"><input type="radio" name="x" checked></form>', 'html.parser')
        yield 'api/detached-radio', s3.find(id='dr').extract(), 'html'
        yield 'api/new-tag', BeautifulSoup('', 'html.parser').new_tag('input', attrs={'type': 'radio', 'name': 'q', 'id': 'nt'}), 'html'
        s2 = BeautifulSoup('<div id="a"><p id="b">t</p><p id="c">u</p></div>', 'html.parser')
        s2.find(id='b')['title'] = None
        s2.find(id='b')['data-n'] = 5
        s2.find(id='c')['class'] = ['k', b'\xff', ['n', 'm']]
        s2.find(id='c')['title'] = b'by\xfftes'
        yield 'api/oddvalues', s2, 'html'


def small_trees(n_max):
    names = ['p', 'i']
    fillers = ['', 't', '<!--c-->', ' ']

    def shapes(n):
        # forests of exactly n element nodes
        if n == 0:
            yield []
            return
        for first in range(1, n + 1):
            for sub in shapes(first - 1):
                for rest in shapes(n - first):
                    yield [sub] + rest

    def render(forest, counter, fill):
        out = []
        for sub in forest:
            counter[0] += 1
            nm = names[counter[0] % len(names)]
            i = counter[0]
            out.append(f'{fill}<{nm} id="n{i}">{render(sub, counter, fill)}</{nm}>')
        return ''.join(out) + (fill if forest else '')
    for n in range(1, n_max + 1):
        for forest in shapes(n):
            for fill in fillers:
                yield '<div id="root">' + render(forest, [0], fill) + '</div>'


# ---------------------------------------------------------------------------------------------------- selectors

SELECTORS = {
    'core': ['*', 'p', 'P', 'div p', 'div > p', 'p ~ p', 'p + p', 'li + li', 'ul > li ~ li', '* > html', ':not(p) > *', 'p, i', 'div *',
             '#p1', '#p1#p1', '.a', '.a.b', '.b.a.c', '[title]', '[title=""]', '[title="x"]', '[title^="x"]', '[title$="y"]', '[title*="-"]',
             '[title^=""]', '[title$=""]', '[title*=""]', '[title~="x"]', '[data-k~="w"]', '[data-k~=""]', '[title|="x"]', '[title!="x"]',
             '[title="x" i]', '[title="X" s]', '[type="submit"]', '[type="submit" s]', '[TITLE]', '[class~="low"]', '[title="ax("]', '[class~="q"]',
             ':is(p, i)', ':is(p > i, b)', ':not(p)', ':not(p, i)', ':not(:not(p))', ':where(.a)', ':matches(#b)', 'p:is(.b)', ':is()', ':is(p,)',
             ':has(> p)', ':has(p)', ':has(+ p)', ':has(~ p)', ':has(> p, i)', ':has(> .a, .b)', 'div:has(> p i)', ':not(:has(*))', ':has(> i + i)',
             ':root', ':root > *', ':empty', ':not(:empty)', ':first-child', ':last-child', ':only-child', ':first-of-type', ':last-of-type',
             ':only-of-type', 'p:first-of-type', ':scope > *', ':scope', '& > *', 'p:not(:first-child):not(:last-child)'],
    'nth': [f':{k}({arg})' for k in ('nth-child', 'nth-last-child', 'nth-of-type', 'nth-last-of-type')
            for arg in ('1', '2', 'n', '2n', '2n+1', 'odd', 'even', '-n+2', 'n+2', '-2n+3', '0n+2', '3n-1', '+n', '-n', '0', 'n-1', '2n-2', '-n+0')] +
           [':nth-child(2 of p)', ':nth-child(-n+2 of .x, i)', ':nth-last-child(odd of :not(i))', 'li:nth-child(n+2)', ':nth-child(2N + 1)',
            'p:nth-of-type(2):nth-last-of-type(1)'],
    'ns': ['svg|circle', '*|circle', '|circle', 'circle', 'svg|*', '*|*', '|*', 'x|a', 'y|a', 'x|*', 'nope|a', '[xlink|href]', '[*|href]', '[|href]',
           '[href]', '[y|k]', '[*|k]', '[nope|k]', '[xlink\\:href]', 'svg|circle, p', 'a', 'A', 'item', 'Item', 't:only-of-type', 't:first-of-type',
           ':is(circle)', ':not(svg|*)', '[viewBox]', '[viewbox]', '[HREF]', '[type="x"]', '[type="ab"]', '[type^="a"]', '[TYPE]', '[Title]'],
    'html': [':checked', ':default', ':indeterminate', ':disabled', ':enabled', ':required', ':optional', ':read-write', ':read-only',
             ':placeholder-shown', ':link', ':any-link', ':in-range', ':out-of-range', ':defined', ':dir(ltr)', ':dir(rtl)', ':not(:dir(ltr))',
             'span, p:dir(ltr)', 'input:checked, iframe span', ':is(:enabled, :disabled)', ':not(:enabled):not(:disabled)', ':checked:default',
             'form :default', ':not(:read-write)', 'input:not(:in-range):not(:out-of-range)', ':focus', ':hover', ':not(:focus)', ':current(p)',
             ':is(:in-range, :out-of-range)', 'p:defined', ':root:dir(ltr)'],
    'lang': [':lang(en)', ':lang("")', ':lang("*")', ':lang(de)', ':lang("de-*")', ':lang("*-de")', ':lang(EN-us)', ':lang("en-*-twain")',
             ':lang("en-x")', ':lang("en-x-twain")', ':lang("en-US-x-twain")', ':lang(zh, fr)', ':lang("*-Hant")', ':lang("zh-CN")', ':not(:lang(en))',
             ':lang(en-twain)', ':lang("*-x")', ':lang("*-*")', ':lang(fr)', ':lang("fr-CA")', ':lang(it)', ':lang(es)', ':lang(nl)', ':lang("de-AT")'],
    'text': [':-soup-contains("aaa")', ':-soup-contains-own("aaa")', ':-soup-contains("bbb")', ':-soup-contains-own("bbb")', ':-soup-contains("ccc")',
             ':-soup-contains("ddd")', ':-soup-contains("eee")', ':-soup-contains("aaabbb")', ':-soup-contains-own("aaafff")', ':-soup-contains("ab")',
             ':-soup-contains-own("ab")', ':-soup-contains-own("aaa"):-soup-contains("bbb")', ':-soup-contains("bbb"):-soup-contains-own("aaa")',
             ':-soup-contains("zzz", "fff")', ':-soup-contains("")', ':-soup-contains("hidden")', ':-soup-contains-own("tail")', ':-soup-contains(words)',
             ':-soup-contains("Testing")', ':empty', ':not(:empty)', 'span:empty', ':-soup-contains(a\\2c b)'],
}


def selectors_for(groups):
    out = []
    for g in groups:
        out.extend(SELECTORS[g])
    return out


# ---------------------------------------------------------------------------------------------------- runtime contracts

def elements_of(root):
    import bs4
    els = [root] if isinstance(root, bs4.Tag) and not isinstance(root, bs4.BeautifulSoup) else []
    els.extend(root.find_all(True))
    return els


def hub_sweep(args):
    """One document: for every selector and every element compare the real match_selectors (and the entry points)
    with the executable contract.  Returns (evaluations, distinct, failures)."""
    label, markup_or_none, groups, nsname, tier, seed, want = args
    import soupsieve as sv
    from soupsieve import css_match as cm
    import spec.css_sem as S
    fails = []
    evals = 0
    distinct = set()
    for dlabel, doc, kind in make_docs(tier, seed, want=[label]):
        ns = NS_MAPS[nsname]
        try:
            before = (doc.decode(), [(id(e), [(k, type(v).__name__, repr(v)) for k, v in e.attrs.items()]) for e in elements_of(doc)])
        except Exception:
            before = None
        for q in selectors_for(groups):
            with warnings.catch_warnings():
                warnings.simplefilter('ignore')
                try:
                    c = sv.compile(q, ns)
                except Exception as ex:
                    if type(ex).__name__ not in ('SelectorSyntaxError', 'NotImplementedError'):
                        fails.append(dict(kind='compile-raises', doc=dlabel, selector=q, error=f'{type(ex).__name__}: {ex}'))
                    continue
            try:
                m = cm.CSSMatch(c.selectors, doc, c.namespaces, c.flags)
                got_sel = None
                for el in elements_of(doc):
                    evals += 1
                    real = m.match_selectors(el, c.selectors)
                    ref = S.sem_list(m, m.namespaces, m.iframe_restrict, el, c.selectors)
                    distinct.add((q, bool(ref)))
                    if ref is not None and bool(real) != bool(ref):
                        fails.append(dict(kind='match_selectors != sem_list', doc=dlabel, selector=q, namespaces=nsname,
                                          element=f'{el.name}#{el.get("id")}', real=bool(real), spec=bool(ref)))
                    if m.namespaces is not (c.namespaces if c.namespaces is not None else m.namespaces) or m.iframe_restrict:
                        fails.append(dict(kind='frame: namespaces/iframe_restrict not restored', doc=dlabel, selector=q))
                # entry points as views of one relation (fresh matcher per call, as the API does)
                per_el = [el for el in S.tag_desc(m, doc, False) if S.matches(cm.CSSMatch(c.selectors, doc, c.namespaces, c.flags), m.namespaces, False, el)]
                sel = c.select(doc)
                evals += 1
                if [id(x) for x in sel] != [id(x) for x in per_el]:
                    fails.append(dict(kind='select != per-element match', doc=dlabel, selector=q, namespaces=nsname,
                                      select=[f'{e.name}#{e.get("id")}' for e in sel], expected=[f'{e.name}#{e.get("id")}' for e in per_el]))
                for lim in (-1, 0, 1, 2):
                    if [id(x) for x in c.select(doc, limit=lim)] != [id(x) for x in (per_el if lim < 1 else per_el[:lim])]:
                        fails.append(dict(kind=f'select(limit={lim})', doc=dlabel, selector=q))
                if [id(x) for x in c.iselect(doc)] != [id(x) for x in per_el]:
                    fails.append(dict(kind='iselect', doc=dlabel, selector=q))
                one = c.select_one(doc)
                if (one is None) != (not per_el) or (one is not None and one is not per_el[0]):
                    fails.append(dict(kind='select_one', doc=dlabel, selector=q))
                # match / closest / filter, also with the document object as the call target or as an item

                def mt(e, scope=None):
                    # (a query made on `scope` fixes :scope / & for every element it looks at; match(e) and filter(iterable) ask each
                    #  item on its own)
                    mm = cm.CSSMatch(c.selectors, e if scope is None else scope, c.namespaces, c.flags)
                    return bool(S.matches(mm, mm.namespaces, False, e))
                import bs4 as _bs4
                els = elements_of(doc)
                targets = ([doc] if isinstance(doc, _bs4.Tag) else []) + els[:3] + els[-3:]
                for t in targets:
                    evals += 1
                    if bool(c.match(t)) != mt(t):
                        fails.append(dict(kind='match(target) != matches', doc=dlabel, selector=q, target=t.name))
                    ref = None
                    cur = t
                    while cur is not None:
                        if isinstance(cur, _bs4.Tag) and mt(cur, t):
                            ref = cur
                            break
                        cur = cur.parent
                    if c.closest(t) is not ref:
                        got_c = c.closest(t)
                        fails.append(dict(kind='closest != nearest matching ancestor-or-self element', doc=dlabel, selector=q, target=t.name,
                                          got=None if got_c is None else got_c.name, expected=None if ref is None else ref.name))
                    kids = [k for k in t.contents if isinstance(k, _bs4.Tag) and mt(k, t)]
                    if [id(x) for x in c.filter(t)] != [id(x) for x in kids]:
                        fails.append(dict(kind='filter(tag) != matching element children', doc=dlabel, selector=q, target=t.name))
                items = targets + [_bs4.NavigableString('x')]          # strings in the iterable are skipped
                want_items = [x for x in items if isinstance(x, _bs4.Tag) and mt(x)]
                evals += 1
                if [id(x) for x in c.filter(items)] != [id(x) for x in want_items]:
                    fails.append(dict(kind='filter(iterable) != matching Tag items in order', doc=dlabel, selector=q))
            except Exception as ex:
                fails.append(dict(kind='matching-raises', doc=dlabel, selector=q, namespaces=nsname, error=f'{type(ex).__name__}: {ex}',
                                  trace=traceback.format_exc()[-600:]))
        if before is not None:
            after = (doc.decode(), [(id(e), [(k, type(v).__name__, repr(v)) for k, v in e.attrs.items()]) for e in elements_of(doc)])
            evals += 1
            if after != before:
                fails.append(dict(kind='document changed by querying (serialisation / attribute values / node identities)', doc=dlabel))
    return evals, len(distinct), fails[:20]


def laws_sweep(args):
    """C05 at the text level: 'A, B' = union; :is(A, B) = union of :is(A), :is(B); :not(A) = complement of :is(A);
    X:is(A) = intersection; adding an alternative never removes a result."""
    label, groups, nsname, tier, seed = args
    import soupsieve as sv
    fails = []
    evals = 0
    distinct = set()
    sels = [q for q in selectors_for(groups) if ',' not in q]
    rnd = random.Random(seed * 7919 + hash(label) % 1000)
    pairs = [(a, b) for a in sels for b in sels]
    rnd.shuffle(pairs)
    pairs = pairs[: (400 if tier == 'quick' else 4000)]
    for dlabel, doc, kind in make_docs(tier, seed, want=[label]):
        ns = NS_MAPS[nsname]
        universe = [id(e) for e in doc.find_all(True)]

        def S(q):
            with warnings.catch_warnings():
                warnings.simplefilter('ignore')
                return [id(e) for e in sv.select(q, doc, namespaces=ns)]
        cache = {}

        def SS(q):
            if q not in cache:
                try:
                    cache[q] = S(q)
                except (sv.SelectorSyntaxError, NotImplementedError):
                    cache[q] = None
            return cache[q]
        for a, b in pairs:
            sa, sb = SS(a), SS(b)
            if sa is None or sb is None:
                continue
            evals += 1
            distinct.add((a, b))
            try:
                u = set(sa) | set(sb)
                checks = [('A, B', SS(f'{a}, {b}'), [x for x in universe if x in u]),
                          (':is(A, B)', SS(f':is({a}, {b})'), [x for x in universe if x in (set(SS(f":is({a})")) | set(SS(f":is({b})")))]),
                          # the complement is taken within what the (implied, possibly default-namespace restricted) `*` selects
                          (':not(A)', SS(f':not({a})'), [x for x in SS('*') if x not in set(SS(f':is({a})'))]),
                          (':not(A, B)', SS(f':not({a}, {b})'), [x for x in SS('*') if x not in set(SS(f':is({a}, {b})'))]),
                          ('*:is(A)', SS(f'*:is({a})'), SS(f':is({a})'))]
                if 'default' not in nsname:
                    checks.append((':is(A, B) == A, B', SS(f':is({a}, {b})'), SS(f'{a}, {b}')))
                for nm, got, want_ in checks:
                    if got is not None and want_ is not None and got != want_:
                        fails.append(dict(kind=f'law {nm}', doc=dlabel, A=a, B=b, namespaces=nsname, got=len(got), expected=len(want_)))
            except Exception as ex:
                fails.append(dict(kind='law-raises', doc=dlabel, A=a, B=b, error=f'{type(ex).__name__}: {ex}'))
        # forgiving lists: an alternative of :is() / :where() that is empty or ends in a dangling combinator contributes nothing, so the
        # union law reads  :is(<nothing>, B) == :is(B)  - also when the dropped alternative is not the first one
        dangling = ['', 'div >', 'p +', 'li ~', 'span > i +']
        for b in sels[:: max(1, len(sels) // (12 if tier == 'quick' else 60))]:
            base = SS(f':is({b})')
            if base is None:
                continue
            for d in dangling:
                for fn in (':is', ':where'):
                    for text in (f'{fn}({d}, {b})', f'{fn}({b}, {d})', f'{fn}({d}, {b}, {d})'):
                        evals += 1
                        distinct.add((text,))
                        got = SS(text)
                        if got is not None and got != base:
                            fails.append(dict(kind='law forgiving alternative adds or removes results', doc=dlabel, selector=text, B=b, namespaces=nsname,
                                              got=len(got), expected=len(base)))
                        neg = SS(f':not({text})')
                        want_neg = [x for x in SS('*') if x not in set(base)] if SS('*') is not None else None
                        if neg is not None and want_neg is not None and neg != want_neg:
                            fails.append(dict(kind='law :not() of a forgiving list', doc=dlabel, selector=f':not({text})', namespaces=nsname))
    return evals, len(distinct), fails[:20]


def run_laws(name, docs, groups, nsnames=('none',), tier='quick', seed=0, jobs=16):
    t0 = time.time()
    tasks = [(d, groups, nsname, tier, seed) for d in docs for nsname in nsnames]
    with mp.get_context('fork').Pool(min(jobs, len(tasks))) as pool:
        res = pool.map(laws_sweep, tasks, chunksize=1)
    fails = [f for r in res for f in r[2]]
    return dict(name=name, label='bounded', evaluations=sum(r[0] for r in res), distinct_nontrivial=sum(r[1] for r in res), failures=fails,
                bound=f'documents {list(docs)} x {400 if tier == "quick" else 4000} seeded pairs from selector groups {list(groups)} x namespace maps {list(nsnames)}',
                exhaustive=False, wall_s=round(time.time() - t0, 2))


def run_hub(name, docs, groups, nsnames=('none',), tier='quick', seed=0, jobs=16):
    """Bounded stand-in: contract of the hub + entry points over docs x selectors x namespace maps."""
    t0 = time.time()
    tasks = [(d, None, groups, nsname, tier, seed, None) for d in docs for nsname in nsnames]
    with mp.get_context('fork').Pool(min(jobs, len(tasks))) as pool:
        res = pool.map(hub_sweep, tasks, chunksize=1)
    evals = sum(r[0] for r in res)
    distinct = sum(r[1] for r in res)
    fails = [f for r in res for f in r[2]]
    return dict(name=name, label='bounded', evaluations=evals, distinct_nontrivial=distinct, failures=fails,
                bound=f'documents {list(docs)} x selector groups {list(groups)} ({len(selectors_for(groups))} selectors) x namespace maps {list(nsnames)}; '
                      f'parsers: {"html.parser (+xml, html5lib samples)" if tier == "quick" else "html.parser, lxml, html5lib, xml"}',
                exhaustive=False, wall_s=round(time.time() - t0, 2))
