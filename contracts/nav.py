"""Contracts: soupsieve.css_match._DocumentNav (tree navigation; C01, C03, C08, C19)."""
from pyvc.dsl import contract
from pyvc.types import INT, BOOL, STR, TOpt, TSeq
from pyvc.tree import NODE, SEQ_NODE, CSSMATCH, OPT_STR, ATTRVAL, OPT_ATTRVAL, RAW, SEQ_ATTR
from pyvc.types import TTup

N = 'soupsieve.css_match._DocumentNav.'

for fn, spec in [('is_doc', 'is_doc(obj)'), ('is_tag', 'is_tag(obj)'), ('is_declaration', 'is_decl(obj)'), ('is_cdata', 'is_cdata(obj)'),
                 ('is_processing_instruction', 'is_pi(obj)'), ('is_navigable_string', 'is_navstr(obj)'),
                 ('is_special_string', 'is_special(obj)')]:
    contract(N + fn, params=dict(obj=NODE), returns=BOOL, ensures=[f'result == {spec}'], properties=['C19', 'C01'])
contract(N + 'is_content_string', params=dict(obj=NODE), returns=BOOL, ensures=['result == is_content(obj)'], properties=['C19'])
contract(N + 'is_xml_tree', params=dict(el=NODE), returns=BOOL, ensures=['result == (el is not None and is_xml_flag(el))'], properties=['C11'])
contract(N + 'get_tag_name', params=dict(el=NODE), returns=OPT_STR, ensures=['result == (None if el is None else name(el))'], properties=['C11'])
contract(N + 'get_prefix_name', params=dict(el=NODE), returns=OPT_STR, requires=['el is not None'], ensures=['result == prefix(el)'], properties=['C11'])
contract(N + 'get_uri', params=dict(el=NODE), returns=OPT_STR, ensures=['result == (None if el is None else namespace(el))'], properties=['C12'])
contract(N + 'has_html_ns', params=dict(el=NODE), returns=BOOL,
         ensures=['result == (el is not None and namespace(el) == NS_XHTML)'], properties=['C11'])
contract(N + 'is_iframe', params=dict(self=CSSMATCH, el=NODE), returns=BOOL, ensures=['result == is_iframe_el(self, el)'], properties=['C17', 'C19'])
contract(N + 'is_root', params=dict(self=CSSMATCH, el=NODE), returns=BOOL,
         requires=['el is not None', 'self.root is None or is_tag(self.root)'],
         ensures=['result == is_root_el(self, el)'], locals=dict(parent=NODE), properties=['C01', 'C17'])
contract(N + 'get_parent', params=dict(self=CSSMATCH, el=NODE, no_iframe=BOOL), returns=NODE,
         ensures=['result == parent_of(self, el, no_iframe)'], locals=dict(parent=NODE), properties=['C01', 'C08'])

SIB_POST_PREV = ['implies(tags, result is None or is_tag(result))',
                 'implies(result is not None, parent(result) == parent(el) and parent(el) is not None and idx(result) < idx(el))']
SIB_POST_NEXT = ['implies(tags, result is None or is_tag(result))',
                 'implies(result is not None, parent(result) == parent(el) and parent(el) is not None and idx(result) > idx(el))']
contract(N + 'get_previous', params=dict(el=NODE, tags=BOOL), returns=NODE, requires=['el is not None'],
         ensures=['result == (prev_elem(el) if tags else previous_sibling(el))'] + SIB_POST_PREV, locals=dict(sibling=NODE),
         loops={1: dict(invariant=['implies(tags, prev_tag_from(sibling) == prev_elem(el))',
                                   'implies(not tags, sibling == previous_sibling(el))',
                                   'sibling is None or (parent(sibling) == parent(el) and parent(el) is not None and idx(sibling) < idx(el))'],
                        decreases='0 if sibling is None else idx(sibling) + 1')},
         properties=['C01', 'C08'])
contract(N + 'get_next', params=dict(el=NODE, tags=BOOL), returns=NODE, requires=['el is not None'],
         ensures=['result == (next_elem(el) if tags else next_sibling(el))'] + SIB_POST_NEXT, locals=dict(sibling=NODE),
         loops={1: dict(invariant=['implies(tags, next_tag_from(sibling) == next_elem(el))',
                                   'implies(not tags, sibling == next_sibling(el))',
                                   'sibling is None or (parent(sibling) == parent(el) and parent(el) is not None and idx(sibling) > idx(el))'],
                        decreases='0 if sibling is None else len(contents(parent(sibling))) - idx(sibling)')},
         properties=['C01', 'C08'])
contract(N + 'get_previous_tag', params=dict(el=NODE, tags=BOOL), returns=NODE, requires=['el is not None'],
         ensures=['result == prev_elem(el)', 'result is None or is_tag(result)',
                  'implies(result is not None, parent(result) == parent(el) and parent(el) is not None and idx(result) < idx(el))'], properties=['C01'])
contract(N + 'get_next_tag', params=dict(el=NODE), returns=NODE, requires=['el is not None'],
         ensures=['result == next_elem(el)', 'result is None or is_tag(result)',
                  'implies(result is not None, parent(result) == parent(el) and parent(el) is not None and idx(result) > idx(el))'], properties=['C01'])

# generators over children / descendants: contracts assumed here (validated by the bounded tier), see props
contract(N + 'get_tag_children', params=dict(self=CSSMATCH, el=NODE, start=TOpt(INT), reverse=BOOL, no_iframe=BOOL), returns=SEQ_NODE,
         ensures=['result == kids_spec(self, el, start, reverse, True, no_iframe)'], properties=['C01'])

contract(N + 'normalize_value', params=dict(value=RAW), returns=ATTRVAL, ensures=['result == norm(value)'], opaque=True, properties=['C08'])
contract(N + 'get_attribute_by_name', params=dict(el=NODE, name=STR, default=OPT_ATTRVAL), returns=OPT_ATTRVAL, requires=['el is not None'],
         ensures=['result == attr_by_name(el, name, default)'], locals=dict(value=OPT_ATTRVAL),
         loops={1: dict(invariant=['value == default', 'raw_index_ci(_seq1, name, _i1) == raw_index_ci(_seq1, name, 0)', '_seq1 == rattrs(el)'])},
         properties=['C01', 'C11', 'C08'])

contract(N + 'split_namespace', params=dict(el=NODE, attr_name=STR), returns=TTup(OPT_STR, OPT_STR), requires=['el is not None'],
         ensures=['result[0] == attr_ns(el, attr_name)', 'result[1] == attr_local(el, attr_name)'], opaque=True,
         notes='A-bs4: getattr(key, "namespace"/"name", None) of a NamespacedAttribute / plain str key', properties=['C12'])
contract(N + 'iter_attributes', params=dict(el=NODE), returns=SEQ_ATTR, kind='generator',
         ensures=['result == npairs(el)'],
         loops={1: dict(invariant=['_seq1 == rattrs(el)', 'yields + npairs_from(_seq1, _i1) == npairs_from(_seq1, 0)'])},
         properties=['C01', 'C12'])
