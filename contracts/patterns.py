"""The token patterns of css_parser compiled the way SelectorPattern.__init__ compiles them (re.I | re.X | re.U): the match objects the
parse_* methods receive are matches of these.  Structural obligation C06.S-dispatch checks, on every run, that SelectorPattern compiles with
exactly these flags and that parse_selectors hands each method the matches of the pattern named here."""
import re
import sys
from pyvc.world import REPO
if REPO not in sys.path:
    sys.path.insert(0, REPO)
from soupsieve import css_parser as _cp   # noqa: E402

FLAGS = re.I | re.X | re.U
PAT_ID = re.compile(_cp.PAT_ID, FLAGS)
PAT_CLASS = re.compile(_cp.PAT_CLASS, FLAGS)
PAT_TAG = re.compile(_cp.PAT_TAG, FLAGS)
PAT_PSEUDO_CLASS = re.compile(_cp.PAT_PSEUDO_CLASS, FLAGS)
PAT_PSEUDO_DIR = re.compile(_cp.PAT_PSEUDO_DIR, FLAGS)
PAT_PSEUDO_LANG = re.compile(_cp.PAT_PSEUDO_LANG, FLAGS)
PAT_PSEUDO_CONTAINS = re.compile(_cp.PAT_PSEUDO_CONTAINS, FLAGS)
# which method receives the matches of which token (the `key` parse_selectors dispatches on)
DISPATCH = {'parse_class_id': ('id', 'class'), 'parse_tag_pattern': ('tag',), 'parse_pseudo_class': ('pseudo_class',), 'parse_pseudo_dir': ('pseudo_dir',), 'parse_pseudo_lang': ('pseudo_lang',),
            'parse_pseudo_contains': ('pseudo_contains',)}
