"""Contracts: character-level string functions (util.lower, css_parser.escape)."""
from pyvc.dsl import contract
from pyvc.types import INT, BOOL, STR, CPS, TSeq

contract('soupsieve.util.lower', params=dict(string=CPS), returns=CPS, strmode='cps',
         ensures=['result == lower_cps(string)', 'len(result) == len(string)'],
         locals=dict(new_string=CPS), joined_locals=['new_string'],
         loops={1: dict(var='c', invariant=['new_string == lower_upto(string, _i1)', 'len(new_string) == _i1'])},
         notes='decorated with lru_cache(maxsize=512): body verified undecorated (A-lru)',
         properties=['C09', 'C11'])

contract('soupsieve.css_parser.escape', params=dict(ident=CPS), returns=CPS, strmode='cps',
         ensures=['result == esc_spec(ident, len(ident))'],
         locals=dict(string=CPS), joined_locals=['string'],
         loops={1: dict(var='c', invariant=['string == esc_spec(ident, _i1)', 'length == len(ident)',
                                            'start_dash == (len(ident) > 0 and ord(ident[0]) == 0x2D)'])},
         properties=['C10'])
