"""Contracts for soupsieve.util beyond lower(): the offset -> (line, column) computation of error messages (C20.O1)."""
from pyvc.dsl import contract
from pyvc.types import INT, STR, TOpt, TSeq, TTup

# A-re-finditer: what is assumed of RE_PATTERN_LINE_SPLIT.finditer(pattern) (validated natively, exhaustively to a length bound, by
# bounded_misc.validate_line_split): with S the start offsets and E(k) = end of the k-th match,
_E = 'ls_end(pattern, _seq1[{0}])'
SEQ = ['len(_seq1) >= 1', '_seq1 == ls_starts(pattern)']
ELEM = [f'0 <= _seq1[_i1] and _seq1[_i1] <= {_E.format("_i1")} and {_E.format("_i1")} <= len(pattern)',
        f'implies(_i1 > 0, _seq1[_i1] >= {_E.format("_i1 - 1")})',
        f'implies(_i1 < len(_seq1) - 1, {_E.format("_i1")} > _seq1[_i1])',
        f'implies(_i1 == len(_seq1) - 1, _seq1[_i1] == len(pattern) and {_E.format("_i1")} == len(pattern))']
contract('soupsieve.util.get_pattern_context', params=dict(pattern=STR, index=INT), returns=TTup(STR, INT, INT),
         requires=['0 <= index', 'index <= len(pattern)'],
         ensures=['result[1] == line_of(pattern, index)', 'result[2] == col_of(pattern, index)'],
         locals=dict(offset=TOpt(INT), text=TSeq(STR)),
         loops={1: dict(var='m', assume_seq=SEQ, assume_elem=ELEM,
                        invariant=['current_line == _i1 + 1', f'last == (0 if _i1 == 0 else {_E.format("_i1 - 1")})', '0 <= last and last <= len(pattern)',
                                   '(len(text) == 0) == (_i1 == 0)',
                                   'implies(_i1 < len(_seq1) and index >= last, line == 1 and col == 1 and brk_cnt(pattern, 0, index) == _i1 + brk_cnt(pattern, _i1, index) and '
                                   'line_begin(pattern, 0, index, 0) == line_begin(pattern, _i1, index, last))',
                                   'implies(index < last or _i1 == len(_seq1), line == line_of(pattern, index) and col == col_of(pattern, index))'])},
         properties=['C20'])
