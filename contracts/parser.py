"""Contracts: css_parser escape decoding (C06.O1, C09.O2) and value-list parsing (C19.O6)."""
from pyvc.dsl import contract
from pyvc.types import INT, BOOL, STR, TOpt, TSeq
from pyvc.rx_rules import MATCH

P = 'soupsieve.css_parser.'
# the callback of css_unescape, once per pattern it is used with: for EVERY match either pattern can produce it returns a
# string of at most one character and raises nothing (int(..., 16) and chr() are within their domains)
def _replay_unescape(world, c, model):
    """Counter-models of the regex-derived obligations: every string the solver chose for a group (or the subject) is fed
    to the real css_unescape in both modes; any exception is a confirmed violation."""
    import z3
    from pyvc.replay import z3_str
    from soupsieve import css_parser as cp
    cands = set()
    for d in model.decls():
        v = model[d]
        if d.name() in ('rx.group',) and hasattr(v, 'as_list'):
            for ent in v.as_list():
                val = ent[-1] if isinstance(ent, list) else ent
                if z3.is_string_value(val):
                    cands.add(z3_str(val))
        elif z3.is_string_value(v):
            cands.add(z3_str(v))
    for s_ in sorted(cands):
        for mode in (False, True):
            try:
                cp.css_unescape(s_, mode)
            except Exception as ex:
                return dict(status='violation', function='soupsieve.css_parser.css_unescape', args=dict(content=repr(s_), string=mode),
                            raised=f'{type(ex).__name__}: {ex}', failed='css_unescape raises nothing')
    return dict(status='not-concretizable', tried=[repr(x) for x in sorted(cands)][:8])


for variant, pat in (('esc', P + 'RE_CSS_ESC'), ('stresc', P + 'RE_CSS_STR_ESC')):
    contract(P + 'css_unescape.replace@' + variant, params=dict(m=MATCH), match_params={'m': pat}, returns=STR, replay_hook=_replay_unescape,
             ensures=['len(result) <= 1',
                      # css-syntax "consume an escaped code point": hex digits name a code point (zero and anything beyond U+10FFFF
                      # become U+FFFD), any other escaped character stands for itself, a backslash at the end for U+FFFD, and (strings) an
                      # escaped newline for nothing
                      "result == (('\\ufffd' if (int(m.group(1)[1:], 16) == 0 or int(m.group(1)[1:], 16) > 0x10FFFF) else chr(int(m.group(1)[1:], 16))) "
                      "if m.group(1) else (m.group(2)[1:] if m.group(2) else ('\\ufffd' if m.group(3) else '')))"],
             properties=['C06', 'C09', 'C10'])
contract(P + 'css_unescape', params=dict(content=STR, string=BOOL), returns=STR,
         ensures=['result == unesc(content, string)'], properties=['C06', 'C09', 'C10', 'C19'])
