"""Contracts: css_parser escape decoding (C06.O1, C09.O2) and value-list parsing (C19.O6)."""
from pyvc.dsl import contract
from pyvc.types import INT, BOOL, STR, TOpt, TSeq
from pyvc.rx_rules import MATCH

P = 'soupsieve.css_parser.'
# the callback of css_unescape, once per pattern it is used with: for EVERY match either pattern can produce it returns a
# string of at most one character and raises nothing (int(..., 16) and chr() are within their domains)
def _replay_unescape(world, c, model):
    """Counter-models of the regex-derived obligations: every string the solver chose for a group (or the subject) is fed
    to the real css_unescape in both modes; any exception is a confirmed violation."""
    import z3
    from pyvc.replay import z3_str
    from soupsieve import css_parser as cp
    cands = set()
    for d in model.decls():
        v = model[d]
        if d.name() in ('rx.group',) and hasattr(v, 'as_list'):
            for ent in v.as_list():
                val = ent[-1] if isinstance(ent, list) else ent
                if z3.is_string_value(val):
                    cands.add(z3_str(val))
        elif z3.is_string_value(v):
            cands.add(z3_str(v))
    for s_ in sorted(cands):
        for mode in (False, True):
            try:
                cp.css_unescape(s_, mode)
            except Exception as ex:
                return dict(status='violation', function='soupsieve.css_parser.css_unescape', args=dict(content=repr(s_), string=mode),
                            raised=f'{type(ex).__name__}: {ex}', failed='css_unescape raises nothing')
    return dict(status='not-concretizable', tried=[repr(x) for x in sorted(cands)][:8])


for variant, pat in (('esc', P + 'RE_CSS_ESC'), ('stresc', P + 'RE_CSS_STR_ESC')):
    contract(P + 'css_unescape.replace@' + variant, params=dict(m=MATCH), match_params={'m': pat}, returns=STR, replay_hook=_replay_unescape,
             ensures=['len(result) <= 1',
                      # css-syntax "consume an escaped code point": hex digits name a code point (zero and anything beyond U+10FFFF
                      # become U+FFFD), any other escaped character stands for itself, a backslash at the end for U+FFFD, and (strings) an
                      # escaped newline for nothing
                      "result == (('\\ufffd' if (int(m.group(1)[1:], 16) == 0 or int(m.group(1)[1:], 16) > 0x10FFFF) else chr(int(m.group(1)[1:], 16))) "
                      "if m.group(1) else (m.group(2)[1:] if m.group(2) else ('\\ufffd' if m.group(3) else '')))"],
             properties=['C06', 'C09', 'C10'])
contract(P + 'css_unescape', params=dict(content=STR, string=BOOL), returns=STR,
         ensures=['result == unesc(content, string)'], properties=['C06', 'C09', 'C10', 'C19'])


# ---- the small parse_* methods: exception freedom, exact effect on the working compound, nothing else touched (C06, C13, C19.O6)
from pyvc.tree import PSEL, CSSPARSER, SELLANG, SELCONTAINS   # noqa: E402
CP = P + 'CSSParser.'
PATS = 'contracts.patterns.'
_PP = dict(self=CSSPARSER, sel=PSEL, m=MATCH, has_selector=BOOL)


def _appended(field):
    n = f'len(old(sel.{field}))'
    return [f'len(sel.{field}) == {n} + 1', f'sel.{field} == old(sel.{field}) + [sel.{field}[{n}]]']


for variant, pat in (('id', PATS + 'PAT_ID'), ('class', PATS + 'PAT_CLASS')):
    contract(CP + 'parse_class_id@' + variant, params=_PP, match_params={'m': pat}, returns=BOOL, modifies=['sel.ids', 'sel.classes'],
             ensures=['result',
                      "implies(m.group(0)[0:1] == '.', sel.classes == old(sel.classes) + [unesc(m.group(0)[1:], False)] and sel.ids == old(sel.ids))",
                      "implies(m.group(0)[0:1] != '.', sel.ids == old(sel.ids) + [unesc(m.group(0)[1:], False)] and sel.classes == old(sel.classes))"],
             properties=['C06', 'C01'])
contract(CP + 'parse_pseudo_dir', params=_PP, match_params={'m': PATS + 'PAT_PSEUDO_DIR'}, returns=BOOL, modifies=['sel.selectors'],
         ensures=['result'] + _appended('selectors') +
                 ["implies(ascii_lower(m.group('dir')) == 'ltr', sel.selectors[len(old(sel.selectors))] == CSS_DIR_LTR)",
                  "implies(ascii_lower(m.group('dir')) != 'ltr', sel.selectors[len(old(sel.selectors))] == CSS_DIR_RTL)"],
         properties=['C06', 'C17'])
_VL = dict(var='token', invariant=['_seq1 == rv_starts(values)', 'patterns + vals_from(values, _i1) == vals_from(values, 0)'])
contract(CP + 'parse_pseudo_lang', params=_PP, match_params={'m': PATS + 'PAT_PSEUDO_LANG'}, returns=BOOL, modifies=['sel.lang'],
         locals=dict(patterns=TSeq(STR), value=TOpt(STR)), loops={1: _VL},
         ensures=['result'] + _appended('lang') + ["sel.lang[len(old(sel.lang))].languages == vals_from(m.group('values'), 0)"],
         properties=['C06', 'C13'])
contract(CP + 'parse_pseudo_contains', params=_PP, match_params={'m': PATS + 'PAT_PSEUDO_CONTAINS'}, returns=BOOL, modifies=['sel.contains'],
         locals=dict(patterns=TSeq(STR), value=TOpt(STR)), loops={1: _VL},
         ensures=['result'] + _appended('contains') +
                 ["sel.contains[len(old(sel.contains))].text == vals_from(m.group('values'), 0)",
                  "sel.contains[len(old(sel.contains))].own == (ascii_lower(unesc(m.group('name'), False)) == ':-soup-contains-own')"],
         properties=['C06', 'C19'])

from pyvc.tree import ISEL, SELLIST, SELTAG   # noqa: E402
from pyvc.types import TTup   # noqa: E402
SYN = {'SelectorSyntaxError': None}
contract(CP + 'parse_tag_pattern', params=_PP, match_params={'m': PATS + 'PAT_TAG'}, returns=BOOL, modifies=['sel.tag'],
         ensures=['result', 'sel.tag is not None', "sel.tag.name == unesc(m.group('tag_name'), False)",
                  "sel.tag.prefix == (unesc(m.group('tag_ns')[:-1], False) if m.group('tag_ns') else None)"],
         properties=['C06', 'C01', 'C12'])
# the recursive descent itself is not under a discharged contract: what it returns is named, its consumption of tokens is explicit
contract(CP + 'parse_selectors', params=dict(self=CSSPARSER, iselector=ISEL, index=INT, flags=INT), returns=SELLIST, opaque=True,
         modifies=['iselector.pos'], ensures=['result == ps_result(self, old(iselector.pos), index, flags)'],
         raises={'SelectorSyntaxError': None, 'NotImplementedError': None}, properties=['C06'])
contract(CP + 'parse_pseudo_open', params=dict(self=CSSPARSER, sel=PSEL, name=STR, has_selector=BOOL, iselector=ISEL, index=INT), returns=BOOL,
         modifies=['sel.selectors', 'iselector.pos'], raises={'SelectorSyntaxError': None, 'NotImplementedError': None},
         ensures=['result'] + _appended('selectors') +
                 ['sel.selectors[len(old(sel.selectors))] == ps_result(self, old(iselector.pos), index, open_flags(name))'],
         properties=['C06', 'C05'])

_PN = "ascii_lower(unesc(m.group('name'), False))"
_SIMPLE = f"(not m.group('open'))"
_KEEP = dict(flags='sel.flags == old(sel.flags)', nth='sel.nth == old(sel.nth)', selectors='sel.selectors == old(sel.selectors)',
             no_match='sel.no_match == old(sel.no_match)')


def _keep(*changed):
    return ' and '.join(v for k, v in _KEEP.items() if k not in changed)


_PC = ['result[1] == is_html']
for nm, flag in ((':root', 'ct.SEL_ROOT'), (':scope', 'ct.SEL_SCOPE'), (':empty', 'ct.SEL_EMPTY')):
    _PC.append(f"implies({_SIMPLE} and {_PN} == '{nm}', result[0] and sel.flags == (old(sel.flags) | {flag}) and {_keep('flags')})")
for nm, const in ((':defined', 'CSS_DEFINED'), (':link', 'CSS_LINK'), (':any-link', 'CSS_LINK'), (':checked', 'CSS_CHECKED'), (':default', 'CSS_DEFAULT'),
                  (':indeterminate', 'CSS_INDETERMINATE'), (':disabled', 'CSS_DISABLED'), (':enabled', 'CSS_ENABLED'), (':required', 'CSS_REQUIRED'),
                  (':optional', 'CSS_OPTIONAL'), (':read-only', 'CSS_READ_ONLY'), (':read-write', 'CSS_READ_WRITE'), (':in-range', 'CSS_IN_RANGE'),
                  (':out-of-range', 'CSS_OUT_OF_RANGE'), (':placeholder-shown', 'CSS_PLACEHOLDER_SHOWN')):
    _PC.append(f"implies({_SIMPLE} and {_PN} == '{nm}', result[0] and sel.selectors == old(sel.selectors) + [{const}] and {_keep('selectors')})")
_N = 'len(old(sel.nth))'
for nm, ot, last in ((':first-child', False, False), (':last-child', False, True), (':first-of-type', True, False), (':last-of-type', True, True)):
    _PC.append(f"implies({_SIMPLE} and {_PN} == '{nm}', result[0] and len(sel.nth) == {_N} + 1 and sel.nth == old(sel.nth) + [sel.nth[{_N}]] and "
               f"is_child_nth(sel.nth[{_N}], {ot}, {last}) and {_keep('nth')})")
for nm, ot in ((':only-child', False), (':only-of-type', True)):
    _PC.append(f"implies({_SIMPLE} and {_PN} == '{nm}', result[0] and len(sel.nth) == {_N} + 2 and sel.nth == old(sel.nth) + [sel.nth[{_N}], sel.nth[{_N} + 1]] and "
               f"is_child_nth(sel.nth[{_N}], {ot}, False) and is_child_nth(sel.nth[{_N} + 1], {ot}, True) and {_keep('nth')})")
_PC.append(f"implies({_SIMPLE} and {_PN} in PSEUDO_SIMPLE_NO_MATCH, result[0] and sel.no_match and {_keep('no_match')})")
_PC.append(f"implies(m.group('open') and {_PN} in PSEUDO_COMPLEX, result[0] and len(sel.selectors) == len(old(sel.selectors)) + 1 and "
           f"sel.selectors[len(old(sel.selectors))] == ps_result(self, old(iselector.pos), m.end(0), open_flags({_PN})) and {_keep('selectors')})")
_OPEN = "m.group('open')"
_VALID = (f"(({_SIMPLE} and ({_PN} in PSEUDO_SIMPLE or {_PN} in PSEUDO_SIMPLE_NO_MATCH)) or "
          f"({_OPEN} and ({_PN} in PSEUDO_COMPLEX or {_PN} in PSEUDO_COMPLEX_NO_MATCH)))")
# a normal return means the name is a supported pseudo-class written in the form (with / without parentheses) it is supported in
_PC.append(_VALID)
_PC.append(f"implies({_OPEN} and not ({_PN} in PSEUDO_COMPLEX) and {_PN} in PSEUDO_COMPLEX_NO_MATCH, result[0] and sel.no_match and {_keep('no_match')})")
_PC.append(f"implies({_SIMPLE}, iselector.pos == old(iselector.pos))")
contract(CP + 'parse_pseudo_class', params=dict(self=CSSPARSER, sel=PSEL, m=MATCH, has_selector=BOOL, iselector=ISEL, is_html=BOOL),
         match_params={'m': PATS + 'PAT_PSEUDO_CLASS'}, returns=TTup(BOOL, BOOL),
         modifies=['sel.flags', 'sel.selectors', 'sel.nth', 'sel.no_match', 'iselector.pos'],
         # an error comes out of the nested list of a functional pseudo-class, or reports a name / form that is not supported
         raises={'SelectorSyntaxError': f"{_OPEN} or not {_VALID}", 'NotImplementedError': _OPEN}, ensures=_PC, properties=['C06', 'C01', 'C17'])
