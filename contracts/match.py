"""Contracts: soupsieve.css_match.CSSMatch (C01, C03, C04, C05, C11, C12)."""
from pyvc.dsl import contract
from pyvc.types import INT, BOOL, STR, FLAGS, TOpt, TSeq
from pyvc.tree import (NODE, SEQ_NODE, CSSMATCH, OPT_STR, SELLIST, SEL, SELTAG, SELATTR, SELNTH, SELCONTAINS, SELLANG, NSMAP)

M = 'soupsieve.css_match.CSSMatch.'
WF = ['self.root is None or is_tag(self.root)']

contract(M + 'supports_namespaces', params=dict(self=CSSMATCH), returns=BOOL, ensures=['result == supports_ns(self)'], properties=['C11', 'C12'])
contract(M + 'get_tag_ns', params=dict(self=CSSMATCH, el=NODE), returns=STR, ensures=['result == tag_ns(self, el)'],
         locals=dict(namespace=STR), properties=['C12'])
contract(M + 'is_html_tag', params=dict(self=CSSMATCH, el=NODE), returns=BOOL, ensures=['result == is_html_el(self, el)'], properties=['C12'])
contract(M + 'get_tag', params=dict(self=CSSMATCH, el=NODE), returns=OPT_STR,
         ensures=['result == (None if el is None else tag_name(self, el))'], properties=['C11'])
contract(M + 'get_prefix', params=dict(self=CSSMATCH, el=NODE), returns=OPT_STR, requires=['el is not None'],
         ensures=['result == (None if prefix(el) is None else (prefix(el) if self.is_xml else ascii_lower(prefix(el))))'], properties=['C11'])
contract(M + 'match_namespace', params=dict(self=CSSMATCH, el=NODE, tag=SELTAG), returns=BOOL,
         ensures=['result == sem_namespace(self, self.namespaces, el, tag)'], properties=['C12'])
contract(M + 'match_tagname', params=dict(self=CSSMATCH, el=NODE, tag=SELTAG), returns=BOOL, requires=['el is not None'],
         ensures=['result == sem_tagname(self, el, tag)'], properties=['C11', 'C01'])
contract(M + 'match_tag', params=dict(self=CSSMATCH, el=NODE, tag=TOpt(SELTAG)), returns=BOOL, requires=['el is not None'],
         ensures=['result == sem_tag(self, self.namespaces, el, tag)'], properties=['C01', 'C12'])
contract(M + 'match_scope', params=dict(self=CSSMATCH, el=NODE), returns=BOOL, ensures=['result == same(self.scope, el)'], properties=['C03'])

# sub-matchers not (yet) verified against a defined spec: their contracts are modular placeholders whose meaning is
# an abstract spec function; the evidence lists them as "proved modulo" edges
for fn, params, spec in [
    ('match_defined', dict(self=CSSMATCH, el=NODE), 'sem_defined(self, el)'),
    ('match_root', dict(self=CSSMATCH, el=NODE), 'sem_root(self, el)'),
    ('match_placeholder_shown', dict(self=CSSMATCH, el=NODE), 'sem_placeholder(self, el)'),
    ('match_nth', dict(self=CSSMATCH, el=NODE, nth=TSeq(SELNTH)), 'sem_nth(self, self.namespaces, self.iframe_restrict, el, nth)'),
    ('match_empty', dict(self=CSSMATCH, el=NODE), 'sem_empty(self, el)'),
    ('match_id', dict(self=CSSMATCH, el=NODE, ids=TSeq(STR)), 'sem_ids(self, el, ids)'),
    ('match_classes', dict(self=CSSMATCH, el=NODE, classes=TSeq(STR)), 'sem_classes(self, el, classes)'),
    ('match_range', dict(self=CSSMATCH, el=NODE, condition=FLAGS), 'sem_range(self, el, condition)'),
    ('match_default', dict(self=CSSMATCH, el=NODE), 'sem_default(self, el)'),
    ('match_indeterminate', dict(self=CSSMATCH, el=NODE), 'sem_indeterminate(self, el)'),
    ('match_dir', dict(self=CSSMATCH, el=NODE, directionality=FLAGS), 'sem_dir(self, el, directionality)'),
]:
    contract(M + fn, params=params, returns=BOOL, ensures=[f'result == {spec}'], opaque=True, properties=['C01'])

contract(M + 'match_subselectors', params=dict(self=CSSMATCH, el=NODE, selectors=TSeq(SELLIST)), returns=BOOL,
         requires=['el is not None'] + WF,
         ensures=['result == all_subs(self, self.namespaces, self.iframe_restrict, el, selectors, 0)'],
         loops={1: dict(var='sel', invariant=['(match and all_subs(self, self.namespaces, self.iframe_restrict, el, selectors, _i1)) == '
                                              'all_subs(self, self.namespaces, self.iframe_restrict, el, selectors, 0)'])},
         properties=['C05', 'C01'])

REL = dict(self=CSSMATCH, el=NODE, relation=SELLIST)
contract(M + 'match_past_relations', params=REL, returns=BOOL,
         requires=['el is not None', 'len(relation.selectors) >= 1', 'not sel_is_null(relation.selectors[0])',
                   "relation.selectors[0].rel_type == ' ' or relation.selectors[0].rel_type == '>' or "
                   "relation.selectors[0].rel_type == '~' or relation.selectors[0].rel_type == '+'"] + WF,
         ensures=['result == sem_rel(self, self.namespaces, self.iframe_restrict, el, relation)'],
         locals=dict(parent=NODE, sibling=NODE),
         loops={1: dict(invariant=['(found or anc_sem(self, self.namespaces, self.iframe_restrict, parent, relation)) == '
                                   'anc_sem(self, self.namespaces, self.iframe_restrict, parent_of(self, el, self.iframe_restrict), relation)',
                                   'parent is None or is_tag(parent)'],
                        decreases='0 if parent is None else depth(parent) + 1'),
                2: dict(invariant=['(found or prev_sem(self, self.namespaces, self.iframe_restrict, sibling, relation)) == '
                                   'prev_sem(self, self.namespaces, self.iframe_restrict, prev_elem(el), relation)',
                                   'sibling is None or is_tag(sibling)'],
                        decreases='0 if sibling is None else idx(sibling) + 1')},
         properties=['C01'])
contract(M + 'match_selectors', params=dict(self=CSSMATCH, el=NODE, selectors=SELLIST), returns=BOOL,
         requires=['el is not None'] + WF,
         ensures=['result == sem_list(self, self.namespaces, self.iframe_restrict, el, selectors)'],
         opaque=True, properties=['C01'])
