"""Contracts: soupsieve.css_match.CSSMatch (C01, C03, C04, C05, C11, C12)."""
from pyvc.dsl import contract
from pyvc.types import INT, BOOL, STR, FLAGS, TOpt, TSeq
from pyvc.tree import (OPT_ATTRVAL, NODE, SEQ_NODE, CSSMATCH, OPT_STR, SELLIST, SEL, SELTAG, SELATTR, SELNTH, SELCONTAINS, SELLANG, NSMAP)

M = 'soupsieve.css_match.CSSMatch.'
WF = ['self.root is None or is_tag(self.root)']

contract(M + 'supports_namespaces', params=dict(self=CSSMATCH), returns=BOOL, ensures=['result == supports_ns(self)'], properties=['C11', 'C12'])
contract(M + 'get_tag_ns', params=dict(self=CSSMATCH, el=NODE), returns=STR, ensures=['result == tag_ns(self, el)'],
         locals=dict(namespace=STR), properties=['C12'])
contract(M + 'is_html_tag', params=dict(self=CSSMATCH, el=NODE), returns=BOOL, ensures=['result == is_html_el(self, el)'], properties=['C12'])
contract(M + 'get_tag', params=dict(self=CSSMATCH, el=NODE), returns=OPT_STR,
         ensures=['result == (None if el is None else tag_name(self, el))'], properties=['C11'])
contract(M + 'get_prefix', params=dict(self=CSSMATCH, el=NODE), returns=OPT_STR, requires=['el is not None'],
         ensures=['result == (None if prefix(el) is None else (prefix(el) if self.is_xml else ascii_lower(prefix(el))))'], properties=['C11'])
contract(M + 'match_namespace', params=dict(self=CSSMATCH, el=NODE, tag=SELTAG), returns=BOOL,
         ensures=['result == sem_namespace(self, self.namespaces, el, tag)'], properties=['C12'])
contract(M + 'match_tagname', params=dict(self=CSSMATCH, el=NODE, tag=SELTAG), returns=BOOL, requires=['el is not None'],
         ensures=['result == sem_tagname(self, el, tag)'], properties=['C11', 'C01'])
contract(M + 'match_tag', params=dict(self=CSSMATCH, el=NODE, tag=TOpt(SELTAG)), returns=BOOL, requires=['el is not None'],
         ensures=['result == sem_tag(self, self.namespaces, el, tag)'], properties=['C01', 'C12'])
contract(M + 'match_scope', params=dict(self=CSSMATCH, el=NODE), returns=BOOL, ensures=['result == same(self.scope, el)'], properties=['C03'])

# sub-matchers not (yet) verified against a defined spec: their contracts are modular placeholders whose meaning is
# an abstract spec function; the evidence lists them as "proved modulo" edges
# :dir() (C17): recursion over ancestors (measure: depth) and, for dir=auto, over the consulted subtree (measure: height)
OPT_INT_ = TOpt(FLAGS)
_STRDIR = "is_str_val(attr_by_name({0}, 'dir', ''))"
contract(M + 'find_bidi', params=dict(self=CSSMATCH, el=NODE), returns=OPT_INT_, requires=['el is not None', 'is_tag(el)'],
         ensures=['result == bidi_of(self, all_kids(self, el), 0)'], decreases='height(el)', unfold=2,
         locals=dict(direction=OPT_INT_, name=OPT_STR, value=OPT_INT_),
         loops={1: dict(var='node', assume_elem=['node is not None', 'parent(node) == el', _STRDIR.format('node')],
                        invariant=['_seq1 == all_kids(self, el)', 'bidi_of(self, _seq1, _i1) == bidi_of(self, _seq1, 0)']),
                2: dict(var='c', iter_text=True,
                        invariant=['_seq2 == text(node)', 'first_strong(_seq2, _i2) == first_strong(_seq2, 0)'])},
         properties=['C17'])
contract(M + 'match_dir', params=dict(self=CSSMATCH, el=NODE, directionality=FLAGS), returns=BOOL, requires=WF,
         assumes=['el is None or (' + _STRDIR.format('el') + " and is_str_val(attr_by_name(el, 'type', '')) and is_str_val(attr_by_name(el, 'value', '')))",
                  'el is None or is_tag(el)'],
         ensures=['result == sem_dir(self, el, directionality)'], decreases='0 if el is None else depth(el) + 1', unfold=1,
         locals=dict(direction=OPT_INT_, name=OPT_STR, value=STR),
         comps={1: dict(var='node', fold='texts_from', args='', assume_elem=['node is not None'])},
         loops={1: dict(var='c', invariant=['first_strong(_seq1, _i1) == first_strong(_seq1, 0)', '_seq1 == value'])},
         properties=['C17'])

contract(M + 'match_subselectors', params=dict(self=CSSMATCH, el=NODE, selectors=TSeq(SELLIST)), returns=BOOL,
         requires=['el is not None', 'is_tag(el)', 'wf_subs(selectors, 0)'] + WF,
         ensures=['result == all_subs(self, self.namespaces, self.iframe_restrict, el, selectors, 0)'],
         loops={1: dict(var='sel', invariant=['(match and all_subs(self, self.namespaces, self.iframe_restrict, el, selectors, _i1)) == '
                                              'all_subs(self, self.namespaces, self.iframe_restrict, el, selectors, 0)',
                                              'wf_subs(selectors, _i1)'])},
         properties=['C05', 'C01'])

REL = dict(self=CSSMATCH, el=NODE, relation=SELLIST)
contract(M + 'match_past_relations', params=REL, returns=BOOL,
         requires=['el is not None', 'is_tag(el)', 'ir_wf_list(relation)', 'len(relation.selectors) >= 1', 'not sel_is_null(relation.selectors[0])',
                   "relation.selectors[0].rel_type == ' ' or relation.selectors[0].rel_type == '>' or "
                   "relation.selectors[0].rel_type == '~' or relation.selectors[0].rel_type == '+'"] + WF,
         ensures=['result == sem_rel(self, self.namespaces, self.iframe_restrict, el, relation)'],
         locals=dict(parent=NODE, sibling=NODE),
         loops={1: dict(invariant=['(found or anc_sem(self, self.namespaces, self.iframe_restrict, parent, relation)) == '
                                   'anc_sem(self, self.namespaces, self.iframe_restrict, parent_of(self, el, self.iframe_restrict), relation)',
                                   'parent is None or is_tag(parent)'],
                        decreases='0 if parent is None else depth(parent) + 1'),
                2: dict(invariant=['(found or prev_sem(self, self.namespaces, self.iframe_restrict, sibling, relation)) == '
                                   'prev_sem(self, self.namespaces, self.iframe_restrict, prev_elem(el), relation)',
                                   'sibling is None or is_tag(sibling)'],
                        decreases='0 if sibling is None else idx(sibling) + 1')},
         properties=['C01'])
ELEM = ['is_element(child)']
contract(M + 'match_future_child', params=dict(self=CSSMATCH, parent=NODE, relation=SELLIST, recursive=BOOL), returns=BOOL,
         requires=['parent is not None', 'ir_wf_list(relation)'] + WF,
         ensures=['result == seq_any(self, self.namespaces, self.iframe_restrict, '
                  '(tag_desc(self, parent, self.iframe_restrict) if recursive else tag_children(self, parent, self.iframe_restrict)), relation, 0)'],
         loops={1: dict(var='child', assume_elem=ELEM,
                        invariant=['not match',
                                   'seq_any(self, self.namespaces, self.iframe_restrict, _seq1, relation, _i1) == '
                                   'seq_any(self, self.namespaces, self.iframe_restrict, _seq1, relation, 0)'])},
         properties=['C01'])
contract(M + 'match_future_relations', params=REL, returns=BOOL,
         requires=['el is not None', 'is_tag(el)', 'ir_wf_list(relation)', 'len(relation.selectors) >= 1', 'not sel_is_null(relation.selectors[0])',
                   "relation.selectors[0].rel_type == ': ' or relation.selectors[0].rel_type == ':>' or "
                   "relation.selectors[0].rel_type == ':~' or relation.selectors[0].rel_type == ':+'"] + WF,
         ensures=['result == sem_rel(self, self.namespaces, self.iframe_restrict, el, relation)'],
         locals=dict(sibling=NODE),
         loops={1: dict(invariant=['(found or next_sem(self, self.namespaces, self.iframe_restrict, sibling, relation)) == '
                                   'next_sem(self, self.namespaces, self.iframe_restrict, next_elem(el), relation)',
                                   'sibling is None or (is_tag(sibling) and parent(sibling) is not None)'],
                        decreases='0 if sibling is None else len(contents(parent(sibling))) - idx(sibling)')},
         properties=['C01'])
RELWF = ["ir_wf_list(relation)", "len(relation.selectors) >= 1",
         "sel_is_null(relation.selectors[0]) or is_none(relation.selectors[0].rel_type) or rel_ok(relation.selectors[0].rel_type)"]
contract(M + 'match_relations', params=REL, returns=BOOL, requires=['el is not None', 'is_tag(el)'] + RELWF + WF,
         ensures=['result == sem_rel(self, self.namespaces, self.iframe_restrict, el, relation)'], properties=['C01'])

# :indeterminate (C17): the owner of the radio group, the memo table of verdicts per (owner, name), the scan of the group
_IC = 'self.cached_indeterminate_forms'
_ILAST = f'{_IC}[len(old({_IC}))]'
_DESC = 'desc_spec(self, form, True, True)'
contract(M + 'match_indeterminate.get_parent_form', params=dict(self=CSSMATCH, el=NODE), returns=NODE,
         ensures=['result == group_scope(self, el)'], locals=dict(form=NODE, parent=NODE, last_parent=NODE),
         loops={1: dict(invariant=['form is None', 'scope_up(self, parent) == group_scope(self, el)'],
                        decreases='0 if parent is None else depth(parent) + 1')},
         properties=['C17'])
contract(M + 'match_indeterminate', params=dict(self=CSSMATCH, el=NODE), returns=BOOL, requires=['el is not None'],
         # the compound that carries SEL_INDETERMINATE also carries :not([checked]), evaluated before this call (structural obligations
         # C17.S-indet-guard, C17.S-hub-order): the element asking is not itself a checked member of its group
         assumes=["not checked_member(self, el, attr_by_name(el, 'name', None), group_scope(self, el))"],
         ensures=['result == sem_indeterminate(self, el)'],
         locals=dict(form=NODE, name=OPT_ATTRVAL, tag_name=OPT_STR),
         loops={1: dict(invariant=['not found_form', 'not match', 'form == group_scope(self, el)', 'form is not None',
                                   f'_seq1 == {_IC}', 'indet_cache_ok(self, _seq1, _i1)']),
                2: dict(var='child', assume_elem=['child is not None and is_tag(child)'],
                        invariant=['not checked', 'not match', 'form == group_scope(self, el)', 'form is not None', f'_seq2 == {_DESC}',
                                   'group_checked(self, form, name, _seq2, _i2, el) == group_checked(self, form, name, _seq2, 0, el)',
                                   f'{_IC} == old({_IC})']),
                3: dict(assume_elem=["implies((k if self.is_xml else ascii_lower(k)) == 'type', is_str_val(v))"],
                        invariant=['not checked', '_seq3 == npairs(child)',
                                   'radio_scan(self, _seq3, _i3, name, is_radio, check, has_name, same(group_scope(self, child), form)) == '
                                   'radio_scan(self, _seq3, 0, name, False, False, False, same(group_scope(self, child), form))'])},
         uses=[dict(fact=f'implies(indet_cache_ok(self, old({_IC}), 0) and len({_IC}) == len(old({_IC})) + 1 and '
                         f'{_IC} == old({_IC}) + [{_ILAST}] and {_ILAST}[0] is not None and '
                         f'{_ILAST}[2] == (not group_checked(self, {_ILAST}[0], {_ILAST}[1], desc_spec(self, {_ILAST}[0], True, True), 0, None)), '
                         f'indet_cache_ok(self, {_IC}, 0))',
                    by=['lemma.C04_indet_snoc_base', 'lemma.C04_indet_snoc_step']),
               dict(fact="implies(form is not None and not checked_member(self, el, name, form), "
                         f"group_checked(self, form, name, {_DESC}, 0, el) == group_checked(self, form, name, {_DESC}, 0, None))",
                    by=['lemma.C17_exclude_base', 'lemma.C17_exclude_step'])],
         properties=['C17', 'C04', 'C01'])

# :lang() (C13): the inherited language, then the memo table of content-language pragmas, then the pragma itself
OPT_STR_ = TOpt(STR)
_LC = 'self.cached_meta_lang'
_LAST = f'{_LC}[len(old({_LC}))]'
contract(M + 'match_lang', params=dict(self=CSSMATCH, el=NODE, langs=TSeq(SELLANG)), returns=BOOL,
         requires=['el is not None', 'is_tag(el)'] + WF,
         ensures=['result == sem_lang(self, el, langs)'],
         locals=dict(parent=NODE, found_lang=OPT_STR_, last=NODE, root=NODE, content=OPT_STR_, attr=OPT_STR_, attr_ns=OPT_STR_),
         loops={1: dict(invariant=['parent is not None', 'is_tag(parent)',
                                   'implies(found_lang is not None, found_lang == inh_lang(self, el))',
                                   'implies(found_lang is None, inh_lang(self, parent) == inh_lang(self, el) and doc_top(self, parent) == doc_top(self, el))'],
                        decreases='depth(parent) + 1'),
                2: dict(assume_elem=['implies(is_lang_key(self, parent, k), is_str_val(v))'],
                        invariant=['found_lang is None', '_seq2 == npairs(parent)',
                                   'own_lang(self, parent, _seq2, _i2) == own_lang(self, parent, _seq2, 0)']),
                3: dict(var='cache',
                        invariant=['implies(not cached, found_lang is None)',
                                   'implies(cached, meta_applies(self, root) and found_lang == meta_lang(self, root))',
                                   f'_seq3 == {_LC}', 'lang_cache_ok(self, _seq3, _i3)']),
                5: dict(var='child', assume_elem=['child is not None and is_tag(child)'],
                        invariant=['not found', "parent == (root if tag == 'html' else html_of(self, root))",
                                   "implies(tag == 'html', not (tag_name(self, root) == 'html' and is_html_el(self, root)))",
                                   '_seq5 == tag_children(self, parent, self.is_html)',
                                   'first_named(self, _seq5, _i5, tag) == first_named(self, _seq5, 0, tag)']),
                6: dict(var='child2',
                        invariant=['found_lang is None', f'{_LC} == old({_LC})', '_seq6 == contents(parent)',
                                   'metas_from(self, parent, _seq6, _i6) == metas_from(self, parent, _seq6, 0)']),
                7: dict(assume_elem=["implies(ascii_lower(k) == 'http-equiv' or ascii_lower(k) == 'content', is_str_val(v))"],
                        invariant=['found_lang is None', f'{_LC} == old({_LC})', '_seq7 == npairs(child2)',
                                   'meta_scan(_seq7, _i7, c_lang, content) == meta_scan(_seq7, 0, False, None)']),
                8: dict(var='patterns',
                        invariant=['match == (_i8 > 0)', 'all_langs(langs, val(found_lang), _i8) == all_langs(langs, val(found_lang), 0)']),
                9: dict(var='pattern',
                        invariant=['_seq9 == patterns.languages',
                                   'any_range(_seq9, val(found_lang), 0) == (match or any_range(_seq9, val(found_lang), _i9))'])},
         uses=[dict(fact=f'implies(lang_cache_ok(self, old({_LC}), 0) and len({_LC}) == len(old({_LC})) + 1 and '
                         f'{_LC} == old({_LC}) + [{_LAST}] and {_LAST}[0] is not None and meta_applies(self, {_LAST}[0]) and '
                         f'{_LAST}[1] == meta_lang(self, {_LAST}[0]), lang_cache_ok(self, {_LC}, 0))',
                    by=['lemma.C04_lang_snoc_base', 'lemma.C04_lang_snoc_step'])],
         properties=['C13', 'C04', 'C01'])

CTX = 'self, self.namespaces, self.iframe_restrict'
contract(M + 'match_selectors', params=dict(self=CSSMATCH, el=NODE, selectors=SELLIST), returns=BOOL,
         requires=['el is not None', 'is_tag(el)', 'ir_wf_list(selectors)'] + WF,
         ensures=[f'result == sem_list({CTX}, el, selectors)'],
         locals=dict(namespaces=NSMAP, iframe_restrict=BOOL),
         loops={1: dict(var='selector',
                        invariant=['match == (_i1 > 0 and is_not)', 'is_not == selectors.is_not', 'is_html == selectors.is_html',
                                   'wf_from(selectors, _i1)',
                                   f'any_from({CTX}, el, selectors.selectors, _i1) == any_from({CTX}, el, selectors.selectors, 0)'])},
         unfold=2, opaque_specs=['sem_nth', 'sem_attrs', 'sem_ids', 'sem_classes', 'sem_range', 'sem_lang', 'sem_dir', 'sem_indeterminate', 'sem_default', 'sem_contains',
                              'sem_empty', 'sem_root', 'sem_defined', 'sem_placeholder'],
         properties=['C01', 'C04', 'C05', 'C11'])
contract(M + 'match', params=dict(self=CSSMATCH, el=NODE), returns=BOOL, requires=['ir_wf_list(self.selectors)'] + WF,
         ensures=[f'result == matches({CTX}, el)'], properties=['C03'])
contract(M + 'select', params=dict(self=CSSMATCH, limit=INT), returns=SEQ_NODE, kind='generator',
         requires=['ir_wf_list(self.selectors)'] + WF,
         ensures=[f'result == sel_from({CTX}, tag_desc(self, self.tag, False), 0, (None if limit < 1 else limit))'],
         locals=dict(lim=TOpt(INT)),
         loops={1: dict(var='child', assume_elem=ELEM,
                        invariant=[f'yields + sel_from({CTX}, _seq1, _i1, lim) == sel_from({CTX}, _seq1, 0, (None if limit < 1 else limit))',
                                   'is_none(lim) or lim >= 1'])},
         properties=['C03'])
contract(M + 'closest', params=dict(self=CSSMATCH), returns=NODE, requires=['ir_wf_list(self.selectors)'] + WF,
         ensures=[f'result == closest_from({CTX}, self.tag)'],
         locals=dict(current=NODE, closest=NODE),
         loops={1: dict(invariant=[f'ite(closest is not None, closest, closest_from({CTX}, current)) == closest_from({CTX}, self.tag)'],
                        decreases='0 if current is None else (depth(current) + 2 if closest is None else 1)')},
         properties=['C03'])
contract('soupsieve.css_match._DocumentNav.get_contents', params=dict(self=CSSMATCH, el=NODE, no_iframe=BOOL), returns=SEQ_NODE,
         kind='generator', ensures=['result == own_contents(self, el, no_iframe)'], properties=['C03', 'C19'])
contract(M + 'filter', params=dict(self=CSSMATCH), returns=SEQ_NODE, requires=['ir_wf_list(self.selectors)'] + WF,
         ensures=[f'result == filt_from({CTX}, own_contents(self, self.tag, False), 0)'],
         comps={1: dict(var='tag', fold='filt_from', args=CTX)},
         properties=['C03'])

contract('soupsieve.css_match._DocumentNav.assert_valid_input', params=dict(tag=NODE), returns=None,
         raises={'TypeError': 'iff:not is_tag(tag)'}, properties=['C08', 'C03'])
contract(M + '__init__', params=dict(self=CSSMATCH, selectors=SELLIST, scope=NODE, namespaces=TOpt(NSMAP), flags=INT), returns=None,
         raises={'TypeError': 'iff:not is_tag(scope)'},
         ensures=['self.tag == scope', 'self.selectors == selectors', 'self.flags == flags', 'not self.iframe_restrict',
                  'self.namespaces == (html_free_map() if is_none(namespaces) else val(namespaces))',
                  # C03.O6: the root is the top ancestor unless that is the document object, then the document's first element child
                  'self.root == (top_of(scope) if not is_doc(top_of(scope)) else first_or_none(tag_children(self, top_of(scope), False)))',
                  # the scope is the call target, or the root when the call was made on the document object
                  'self.scope == (scope if not same(scope, top_of(scope)) else self.root)',
                  # C11.O1: document kind
                  'self.is_xml == is_xml_flag(top_of(scope))',
                  'self.has_html_namespace == (self.root is not None and namespace(self.root) == NS_XHTML)',
                  'self.is_html == ((not self.is_xml) or self.has_html_namespace)'],
         locals=dict(doc=NODE, parent=NODE, root=NODE),
         loops={1: dict(invariant=['doc is not None', 'top_of(doc) == top_of(scope)', 'parent == parent(doc)'],
                        decreases='0 if parent is None else depth(parent) + 1'),
                2: dict(var='child', invariant=['root is None', '_i2 == 0'])},
         properties=['C03', 'C11'])

contract('soupsieve.css_match._DocumentNav.create_fake_parent', params=dict(el=NODE), returns=NODE,
         ensures=['result is not None', 'result == fake_parent(el)'], opaque=True, properties=['C02'])
contract(M + 'match_nth_tag_type', params=dict(self=CSSMATCH, el=NODE, child=NODE), returns=BOOL, requires=['el is not None', 'child is not None'],
         ensures=['result == same_type(self, el, child)'], properties=['C02'])
contract(M + 'match_nth', params=dict(self=CSSMATCH, el=NODE, nth=TSeq(SELNTH)), returns=BOOL,
         requires=['el is not None', 'is_tag(el)', 'wf_nths(nth, 0)'] + WF,
         ensures=[f'result == sem_nth({CTX}, el, nth)'],
         locals=dict(parent=NODE),
         loops={1: dict(var='n', invariant=['matched', f'all_nth({CTX}, el, nth, _i1) == all_nth({CTX}, el, nth, 0)', 'wf_nths(nth, _i1)']),
                2: dict(var='child', assume_elem=['child is not None and is_tag(child)'],
                        invariant=['relative_index >= 0', '_seq2 == nth_sibs(self, el, n.last)',
                                   f'relative_index + cnt_from({CTX}, el, n, _seq2, _i2) == cnt_from({CTX}, el, n, _seq2, 0)'])},
         properties=['C02', 'C01'])
contract('lemma.C02_anb_closed_sound', params=dict(a=INT, b=INT, q=INT), requires=['anb(a, b, True, q)'],
         ensures=['implies(a == 0, b == q)', 'implies(a != 0, a * ((q - b) // a) + b == q and (q - b) // a >= 0)'], properties=['C02'])
contract('lemma.C02_anb_closed_complete', params=dict(a=INT, b=INT, q=INT, k=INT), requires=['k >= 0', 'a * k + b == q'],
         ensures=['anb(a, b, True, q)'], properties=['C02'])

contract(M + 'match_range', params=dict(self=CSSMATCH, el=NODE, condition=FLAGS), returns=BOOL,
         requires=['el is not None'], assumes=['range_attrs_are_strings(el)'],
         ensures=['result == sem_range(self, el, condition)'],
         kf_region='week53_region(el)', kf_id='C18-week53-lenient', opaque_specs=['html_value', 'week53_lenient'],
         properties=['C18', 'C08', 'C17'])

contract(M + 'match_id', params=dict(self=CSSMATCH, el=NODE, ids=TSeq(STR)), returns=BOOL, requires=['el is not None'],
         ensures=['result == sem_ids(self, el, ids)'],
         loops={1: dict(var='i', invariant=['found', 'all_ids(el, ids, _i1) == all_ids(el, ids, 0)'])}, properties=['C01'])
contract('soupsieve.css_match._DocumentNav.get_classes', params=dict(el=NODE), returns=TSeq(STR), requires=['el is not None'],
         ensures=['result == class_list(el)'], properties=['C01'])
contract(M + 'match_classes', params=dict(self=CSSMATCH, el=NODE, classes=TSeq(STR)), returns=BOOL, requires=['el is not None'],
         ensures=['result == sem_classes(self, el, classes)'],
         loops={1: dict(var='c', invariant=['found', 'current_classes == class_list(el)',
                                            'all_classes(current_classes, classes, _i1) == all_classes(current_classes, classes, 0)'])},
         properties=['C01'])

contract(M + 'match_attribute_name', params=dict(self=CSSMATCH, el=NODE, attr=STR, prefix=OPT_STR), returns=OPT_ATTRVAL,
         requires=['el is not None'],
         assumes=[],
         ensures=['result == attr_lookup(self, self.namespaces, el, attr, prefix)'],
         locals=dict(value=OPT_ATTRVAL, ns=OPT_STR, namespace=OPT_STR, name=OPT_STR),
         loops={1: dict(assume_elem=['implies(not is_none(attr_ns(el, k)) and not self.is_xml, not is_none(attr_local(el, k)))'],
                        invariant=['is_none(value)', '_seq1 == npairs(el)',
                                   'find_attr(self, ns, el, attr, prefix, _seq1, _i1) == find_attr(self, ns, el, attr, prefix, _seq1, 0)']),
                2: dict(invariant=['is_none(value)', '_seq2 == npairs(el)', 'find_ci(_seq2, attr, _i2) == find_ci(_seq2, attr, 0)'])},
         properties=['C12', 'C11', 'C01'])
contract(M + 'match_attributes', params=dict(self=CSSMATCH, el=NODE, attributes=TSeq(SELATTR)), returns=BOOL,
         requires=['el is not None'],
         ensures=['result == sem_attrs(self, self.namespaces, el, attributes)'],
         loops={1: dict(var='a', invariant=['match', 'all_attrs(self, self.namespaces, el, attributes, _i1) == all_attrs(self, self.namespaces, el, attributes, 0)'])},
         properties=['C01', 'C11', 'C12'])

contract(M + 'match_empty', params=dict(self=CSSMATCH, el=NODE), returns=BOOL, requires=['el is not None'],
         ensures=['result == sem_empty(self, el)'],
         loops={1: dict(var='child', assume_elem=['child is not None'],
                        invariant=['is_empty', 'empty_from(_seq1, _i1) == empty_from(_seq1, 0)',
                                   '_seq1 == kids_spec(self, el, None, False, False, False)'])},
         properties=['C01', 'C19'])
contract(M + 'match_root', params=dict(self=CSSMATCH, el=NODE), returns=BOOL, requires=['el is not None'] + WF,
         ensures=['result == sem_root(self, el)'], locals=dict(sibling=NODE),
         loops={1: dict(invariant=['(is_root and clear_before(sibling)) == clear_before(previous_sibling(el))',
                                   'sibling is None or (parent(sibling) is not None)'],
                        decreases='0 if sibling is None else 2 * (idx(sibling) + 1) + (1 if is_root else 0)'),
                2: dict(invariant=['(is_root and clear_after(sibling)) == clear_after(next_sibling(el))',
                                   'sibling is None or (parent(sibling) is not None)'],
                        decreases='0 if sibling is None else 2 * (len(contents(parent(sibling))) - idx(sibling)) + (1 if is_root else 0)')},
         properties=['C01'])

contract(M + 'extended_language_filter', params=dict(self=CSSMATCH, lang_range=STR, lang_tag=STR), returns=BOOL, merge=False, prefer_cvc5=True,
         ensures=['result == lang_filter(lang_range, lang_tag)'],
         loops={1: dict(invariant=['(match and rest_ok(ranges, subtags, rindex, sindex)) == (first_ok(ranges, subtags) and rest_ok(ranges, subtags, 1, 1))',
                                   'rindex >= 1', 'sindex >= 1', 'length == len(ranges)', 'slength == len(subtags)', 'len(ranges) >= 1', 'len(subtags) >= 1',
                                   'ranges == split_dash(py_lower(wild_strip(old(lang_range))))', 'subtags == split_dash(py_lower(lang_tag))'],
                        decreases='(2 * (length - rindex) + (slength - sindex if sindex < slength else 0) + 1) if match else 0')},
         properties=['C13'])

contract(M + 'match_contains', params=dict(self=CSSMATCH, el=NODE, contains=TSeq(SELCONTAINS)), returns=BOOL, requires=['el is not None'],
         ensures=['result == sem_contains(self, el, contains)'],
         locals=dict(content=TOpt(STR), own_content=TOpt(TSeq(STR))),
         loops={1: dict(var='contain_list',
                        invariant=['(match and all_contains(self, el, contains, _i1)) == all_contains(self, el, contains, 0)',
                                   'is_none(content) or val(content) == text_of(self, el, self.is_html)',
                                   'is_none(own_content) or val(own_content) == own_texts(self, el, self.is_html)']),
                2: dict(var='text',
                        invariant=['not found',
                                   'implies(contain_list.own, not is_none(own_content) and any_needle_own(contain_list.text, val(own_content), _i2) == any_needle_own(contain_list.text, val(own_content), 0))',
                                   'implies(not contain_list.own, not is_none(content) and any_needle(contain_list.text, val(content), _i2) == any_needle(contain_list.text, val(content), 0))',
                                   '_seq2 == contain_list.text']),
                3: dict(var='c', invariant=['not found', 'any_hay(text, _seq3, _i3) == any_hay(text, _seq3, 0)', '_seq3 == val(own_content)'])},
         properties=['C19'])

NAVQ = 'soupsieve.css_match._DocumentNav.'
contract(NAVQ + 'get_children', params=dict(self=CSSMATCH, el=NODE, start=TOpt(INT), reverse=BOOL, tags=BOOL, no_iframe=BOOL),
         returns=SEQ_NODE, kind='generator', ensures=['result == kids_spec(self, el, start, reverse, tags, no_iframe)'],
         locals=dict(index=INT, node=NODE),
         loops={1: dict(invariant=['last == len(contents(el)) - 1', 'end == (-1 if reverse else last + 1)', 'incr == (-1 if reverse else 1)',
                                   'implies(reverse, -1 <= index and index <= last)', 'implies(not reverse, 0 <= index and index <= last + 1)',
                                   'yields + (kids_down(contents(el), index, tags) if reverse else kids_up(contents(el), index, tags)) == '
                                   'kids_spec(self, el, start, reverse, tags, no_iframe)'],
                        decreases='index + 1 if reverse else last + 1 - index')},
         properties=['C02', 'C01', 'C19'])
contract(NAVQ + 'get_text', params=dict(self=CSSMATCH, el=NODE, no_iframe=BOOL), returns=STR, requires=['el is not None'],
         ensures=['result == text_of(self, el, no_iframe)'],
         comps={1: dict(var='node', fold='texts_from', args='', assume_elem=['node is not None'])}, properties=['C19'])
contract(NAVQ + 'get_own_text', params=dict(self=CSSMATCH, el=NODE, no_iframe=BOOL), returns=TSeq(STR), requires=['el is not None'],
         ensures=['result == own_texts(self, el, no_iframe)'],
         comps={1: dict(var='node', fold='texts_from', args='', assume_elem=['node is not None'])}, properties=['C19'])
# desc_spec is the name callers use for the result of this pure function (`defines`); what is proved about it is desc_def
_DS = 'descendants(el)'
contract(NAVQ + 'get_descendants', params=dict(self=CSSMATCH, el=NODE, tags=BOOL, no_iframe=BOOL), returns=SEQ_NODE, kind='generator',
         ensures=['result == desc_def(self, el, tags, no_iframe)'], defines=['result == desc_spec(self, el, tags, no_iframe)'],
         locals=dict(next_good=NODE, last_child=NODE),
         loops={1: dict(var='child',
                        invariant=[f'_seq1 == {_DS}',
                                   f'implies(next_good is None, yields + desc_flat(self, _seq1, _i1, tags, no_iframe) == desc_flat(self, _seq1, 0, tags, no_iframe))',
                                   f'implies(next_good is not None, dindex(el, next_good) >= _i1 and '
                                   f'yields + desc_flat(self, _seq1, dindex(el, next_good), tags, no_iframe) == desc_flat(self, _seq1, 0, tags, no_iframe))']),
                2: dict(invariant=['last_desc(last_child) == last_desc(child)', 'last_child is not None'],
                        decreases='height(last_child)')},
         properties=['C19', 'C03'])
contract(M + 'match_defined', params=dict(self=CSSMATCH, el=NODE), returns=BOOL, requires=['el is not None'],
         ensures=['result == sem_defined(self, el)'], properties=['C01'])
contract(M + 'match_placeholder_shown', params=dict(self=CSSMATCH, el=NODE), returns=BOOL, requires=['el is not None'],
         ensures=['result == sem_placeholder(self, el)'], properties=['C17'])

contract(M + 'match_default', params=dict(self=CSSMATCH, el=NODE), returns=BOOL, requires=['el is not None'],
         ensures=['result == sem_default(self, el)'],
         locals=dict(form=NODE, parent=NODE, name=OPT_STR),
         loops={1: dict(invariant=['(form_from(self, parent) if form is None else form) == form_of(self, el)', 'form is None or is_form_el(self, form)',
                                   'parent is None or is_tag(parent)'],
                        decreases='0 if parent is None else (depth(parent) + 2 if form is None else 1)'),
                2: dict(invariant=['not found_form', 'not match', 'form == form_of(self, el)', 'form is not None',
                                   '_seq2 == self.cached_default_forms', 'default_cache_ok(self, _seq2, _i2)']),
                3: dict(var='child', assume_elem=['child is not None and is_tag(child)', "is_str_val(attr_by_name(child, 'type', ''))"],
                        invariant=['not match', 'form == form_of(self, el)', 'form is not None', '_seq3 == desc_spec(self, form, True, True)',
                                   'first_submit(self, _seq3, _i3) == first_submit(self, _seq3, 0)',
                                   'self.cached_default_forms == old(self.cached_default_forms)'])},
         uses=[dict(fact='implies(default_cache_ok(self, old(self.cached_default_forms), 0) and form is not None and '
                         'len(self.cached_default_forms) == len(old(self.cached_default_forms)) + 1 and '
                         'self.cached_default_forms == old(self.cached_default_forms) + [self.cached_default_forms[len(old(self.cached_default_forms))]] and '
                         'self.cached_default_forms[len(old(self.cached_default_forms))][0] is not None and self.cached_default_forms[len(old(self.cached_default_forms))][1] is not None and '
                         'same(default_of(self, self.cached_default_forms[len(old(self.cached_default_forms))][0]), self.cached_default_forms[len(old(self.cached_default_forms))][1]), '
                         'default_cache_ok(self, self.cached_default_forms, 0))',
                    by=['lemma.C04_cache_snoc_base', 'lemma.C04_cache_snoc_step'])],
         properties=['C17', 'C04'])
contract('soupsieve.css_match._DocumentNav.get_tag_descendants', params=dict(self=CSSMATCH, el=NODE, no_iframe=BOOL), returns=SEQ_NODE,
         kind='generator', ensures=['result == tag_desc(self, el, no_iframe)'], properties=['C01', 'C03'])
