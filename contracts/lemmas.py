"""Lemmas over the spec (no code involved): the Boolean-algebra laws of C05, stated over `sem` (which C01 ties to the code).
Inductive facts are given as base + step; the induction principle over the naturals is the (standard) meta-rule."""
from pyvc.dsl import contract as _contract

SUB = ['sem_nth', 'sem_attrs', 'sem_ids', 'sem_classes', 'sem_range', 'sem_tag', 'sem_rel', 'sem_empty', 'sem_root', 'sem_lang', 'sem_dir', 'sem_indeterminate',
       'sem_default', 'sem_contains', 'sem_defined', 'sem_placeholder']


def contract(qual, **kw):
    """The algebra lemmas only use the conjunction/disjunction structure of sem: the sub-matcher meanings stay uninterpreted."""
    kw.setdefault('opaque_specs', SUB)
    return _contract(qual, **kw)
from pyvc.types import INT, BOOL, STR, TSeq, TOpt
from pyvc.tree import NODE, CSSMATCH, SELLIST, SEL, NSMAP

CTXP = dict(self=CSSMATCH, ns=NSMAP, ifr=BOOL, el=NODE)
CTX = 'self, ns, ifr, el'
SS = TSeq(SEL)

# L1 complement: a list and the same list negated are complementary (user lists never carry the HTML flag: C05 repair)
contract('lemma.C05_L1_complement', params=dict(CTXP, A=SELLIST, B=SELLIST),
         requires=['A.selectors == B.selectors', 'len(A.selectors) > 0', 'A.is_html == B.is_html', 'A.is_not', 'not B.is_not',
                   'implies(A.is_html, self.is_html)'],
         ensures=[f'sem_list({CTX}, A) == (not sem_list({CTX}, B))'], properties=['C05'])
# the HTML-only device: in a non-HTML document an HTML-only list holds nowhere, negated or not (so :not(:dir(x)) relies on
# the HTML-only part being its own inner list, which the parser contract states)
contract('lemma.C05_html_only_list', params=dict(CTXP, A=SELLIST), requires=['A.is_html', 'not self.is_html'],
         ensures=[f'not sem_list({CTX}, A)'], properties=['C05', 'C11'])
# any_from over a concatenation: shifting (base, step) and splitting (base, step)
contract('lemma.C05_shift_base', params=dict(CTXP, X=SS, Y=SS, j=INT), requires=['j == len(Y)'],
         ensures=[f'any_from({CTX}, X + Y, len(X) + j) == any_from({CTX}, Y, j)'], properties=['C05'])
contract('lemma.C05_shift_step', params=dict(CTXP, X=SS, Y=SS, j=INT),
         requires=['0 <= j < len(Y)', f'any_from({CTX}, X + Y, len(X) + j + 1) == any_from({CTX}, Y, j + 1)'],
         ensures=[f'any_from({CTX}, X + Y, len(X) + j) == any_from({CTX}, Y, j)'], properties=['C05'])
contract('lemma.C05_union_base', params=dict(CTXP, X=SS, Y=SS, i=INT),
         requires=['i == len(X)', f'any_from({CTX}, X + Y, len(X) + 0) == any_from({CTX}, Y, 0)'],
         ensures=[f'any_from({CTX}, X + Y, i) == (any_from({CTX}, X, i) or any_from({CTX}, Y, 0))'], properties=['C05'])
contract('lemma.C05_union_step', params=dict(CTXP, X=SS, Y=SS, i=INT),
         requires=['0 <= i < len(X)', f'any_from({CTX}, X + Y, i + 1) == (any_from({CTX}, X, i + 1) or any_from({CTX}, Y, 0))'],
         ensures=[f'any_from({CTX}, X + Y, i) == (any_from({CTX}, X, i) or any_from({CTX}, Y, 0))'], properties=['C05'])
# L2 union at list level, given the tuple-level fact the four lemmas above establish by induction
contract('lemma.C05_L2_union', params=dict(CTXP, A=SELLIST, B=SELLIST, C=SELLIST),
         requires=['C.selectors == A.selectors + B.selectors', 'len(A.selectors) > 0', 'len(B.selectors) > 0',
                   'not A.is_not and not B.is_not and not C.is_not', 'not A.is_html and not B.is_html and not C.is_html',
                   f'any_from({CTX}, A.selectors + B.selectors, 0) == (any_from({CTX}, A.selectors, 0) or any_from({CTX}, B.selectors, 0))'],
         ensures=[f'sem_list({CTX}, C) == (sem_list({CTX}, A) or sem_list({CTX}, B))'], properties=['C05'])
# L3 monotonicity: adding an alternative never removes a result
contract('lemma.C05_L3_monotone', params=dict(CTXP, A=SELLIST, B=SELLIST, C=SELLIST),
         requires=['C.selectors == A.selectors + B.selectors', 'len(A.selectors) > 0', 'len(B.selectors) > 0',
                   'not A.is_not and not B.is_not and not C.is_not', 'not A.is_html and not B.is_html and not C.is_html',
                   f'any_from({CTX}, A.selectors + B.selectors, 0) == (any_from({CTX}, A.selectors, 0) or any_from({CTX}, B.selectors, 0))'],
         ensures=[f'implies(sem_list({CTX}, A), sem_list({CTX}, C))', f'implies(sem_list({CTX}, B), sem_list({CTX}, C))'], properties=['C05'])
# L4 X:is(A) is the intersection of X and :is(A): a compound holds only if each of its sub-lists holds, and a
# compound whose first sub-list is A is (A and the compound without it)
contract('lemma.C05_L4_sub_conjunct', params=dict(CTXP, s=SEL, t=SEL),
         requires=['not sel_is_null(s)', 'not sel_is_null(t)', 'len(s.selectors) >= 1', 't.selectors == s.selectors[1:]',
                   't.tag == s.tag', 't.flags == s.flags', 't.nth == s.nth', 't.ids == s.ids', 't.classes == s.classes',
                   't.attributes == s.attributes', 't.lang == s.lang', 't.relation == s.relation', 't.contains == s.contains',
                   f'all_subs({CTX}, s.selectors, 1) == all_subs({CTX}, s.selectors[1:], 0)'],
         ensures=[f'sem_sel({CTX}, s) == (sem_list({CTX}, s.selectors[0]) and sem_sel({CTX}, t))'], properties=['C05'])

# C04.O3: appending a correct (form, default button) pair keeps the memo table's invariant (base + step of the induction on i)
from pyvc.types import TTup   # noqa: E402
FC = TSeq(TTup(NODE, NODE))
contract('lemma.C04_cache_snoc_base', params=dict(self=CSSMATCH, old=FC, f=NODE, b=NODE, i=INT), opaque_specs=['default_of'],
         requires=['i == len(old)', 'f is not None', 'b is not None', 'same(default_of(self, f), b)'],
         ensures=['default_cache_ok(self, old + [(f, b)], i)'], properties=['C04'])
contract('lemma.C04_cache_snoc_step', params=dict(self=CSSMATCH, old=FC, f=NODE, b=NODE, i=INT), opaque_specs=['default_of'],
         requires=['0 <= i < len(old)', 'default_cache_ok(self, old, i)', 'default_cache_ok(self, old + [(f, b)], i + 1)'],
         ensures=['default_cache_ok(self, old + [(f, b)], i)'], properties=['C04'])

LCT = TSeq(TTup(NODE, TOpt(STR)))
contract('lemma.C04_lang_snoc_base', params=dict(self=CSSMATCH, old=LCT, r=NODE, v=TOpt(STR), i=INT), opaque_specs=['meta_lang', 'meta_applies'],
         requires=['i == len(old)', 'r is not None', 'meta_applies(self, r)', 'v == meta_lang(self, r)'],
         ensures=['lang_cache_ok(self, old + [(r, v)], i)'], properties=['C04'])
contract('lemma.C04_lang_snoc_step', params=dict(self=CSSMATCH, old=LCT, r=NODE, v=TOpt(STR), i=INT), opaque_specs=['meta_lang', 'meta_applies'],
         requires=['0 <= i < len(old)', 'lang_cache_ok(self, old, i)', 'lang_cache_ok(self, old + [(r, v)], i + 1)'],
         ensures=['lang_cache_ok(self, old + [(r, v)], i)'], properties=['C04'])

from pyvc.tree import OPT_ATTRVAL, SEQ_NODE   # noqa: E402
ICT = TSeq(TTup(NODE, OPT_ATTRVAL, BOOL))
_GC = 'group_checked(self, f, n, desc_spec(self, f, True, True), 0, None)'
contract('lemma.C04_indet_snoc_base', params=dict(self=CSSMATCH, old=ICT, f=NODE, n=OPT_ATTRVAL, v=BOOL, i=INT), opaque_specs=['group_checked'],
         requires=['i == len(old)', 'f is not None', f'v == (not {_GC})'],
         ensures=['indet_cache_ok(self, old + [(f, n, v)], i)'], properties=['C04'])
contract('lemma.C04_indet_snoc_step', params=dict(self=CSSMATCH, old=ICT, f=NODE, n=OPT_ATTRVAL, v=BOOL, i=INT), opaque_specs=['group_checked'],
         requires=['0 <= i < len(old)', 'indet_cache_ok(self, old, i)', 'indet_cache_ok(self, old + [(f, n, v)], i + 1)'],
         ensures=['indet_cache_ok(self, old + [(f, n, v)], i)'], properties=['C04'])
# leaving out an element that is not a checked member of the group does not change whether the group has a checked member
contract('lemma.C17_exclude_base', params=dict(self=CSSMATCH, f=NODE, n=OPT_ATTRVAL, seq=SEQ_NODE, el=NODE, i=INT), opaque_specs=['checked_member'],
         requires=['i >= len(seq) or i < 0'],
         ensures=['group_checked(self, f, n, seq, i, el) == group_checked(self, f, n, seq, i, None)'], properties=['C17'])
contract('lemma.C17_exclude_step', params=dict(self=CSSMATCH, f=NODE, n=OPT_ATTRVAL, seq=SEQ_NODE, el=NODE, i=INT), opaque_specs=['checked_member'],
         requires=['0 <= i < len(seq)', 'not checked_member(self, el, n, f)',
                   'group_checked(self, f, n, seq, i + 1, el) == group_checked(self, f, n, seq, i + 1, None)'],
         ensures=['group_checked(self, f, n, seq, i, el) == group_checked(self, f, n, seq, i, None)'], properties=['C17'])
# :not([checked]) holds at el  ==>  the radio scan never sees a `checked` attribute on el, so el is not a checked member of any group
# (the link between the guard of CSS_INDETERMINATE's last compound and the assumption of match_indeterminate)
from pyvc.tree import SEQ_ATTR   # noqa: E402
_RS = dict(self=CSSMATCH, el=NODE, seq=SEQ_ATTR, i=INT, nm=OPT_ATTRVAL, r=BOOL, n=BOOL, sf=BOOL)
contract('lemma.C17_guard_base', params=_RS, requires=['i >= len(seq) or i < 0'],
         ensures=['not radio_scan(self, seq, i, nm, r, False, n, sf)'], properties=['C17'])
contract('lemma.C17_guard_step_ns', params=_RS,
         requires=['0 <= i < len(seq)', "find_attr(self, None, el, 'checked', None, seq, i) is None",
                   'not radio_scan(self, seq, i + 1, nm, r or ((seq[i][0] if self.is_xml else ascii_lower(seq[i][0])) == "type" and ascii_lower(as_str(seq[i][1])) == "radio"), False, '
                   'n or ((seq[i][0] if self.is_xml else ascii_lower(seq[i][0])) == "name" and seq[i][1] == nm), sf)'],
         ensures=['not radio_scan(self, seq, i, nm, r, False, n, sf)'], properties=['C17'])
contract('lemma.C17_guard_step_ci', params=_RS,
         requires=['0 <= i < len(seq)', 'not self.is_xml', "find_ci(seq, 'checked', i) is None",
                   'not radio_scan(self, seq, i + 1, nm, r or (ascii_lower(seq[i][0]) == "type" and ascii_lower(as_str(seq[i][1])) == "radio"), False, '
                   'n or (ascii_lower(seq[i][0]) == "name" and seq[i][1] == nm), sf)'],
         ensures=['not radio_scan(self, seq, i, nm, r, False, n, sf)'], properties=['C17'])
