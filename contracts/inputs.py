"""Contracts: soupsieve.css_match.Inputs (C18, C08)."""
from pyvc.dsl import contract
from pyvc.types import INT, BOOL, STR, REAL, TOpt, TSeq

Q = 'soupsieve.css_match.Inputs.'

contract(Q + 'validate_day', params=dict(year=INT, month=INT, day=INT), returns=BOOL,
         requires=['year >= 1', '1 <= month <= 12'],
         ensures=['result == valid_day(year, month, day)'], properties=['C18'])
contract(Q + 'validate_week', params=dict(year=INT, week=INT), returns=BOOL,
         requires=['year >= 1'],
         ensures=['result == valid_week(year, week)'], properties=['C18', 'C08'],
         kf_region='week == 53 and 1 <= p_dec31(year) <= 3', kf_id='C18-week53-lenient')
contract(Q + 'validate_month', params=dict(month=INT), returns=BOOL,
         ensures=['result == (1 <= month <= 12)'], properties=['C18'])
contract(Q + 'validate_year', params=dict(year=INT), returns=BOOL,
         ensures=['result == (year >= 1)'], properties=['C18'])
contract(Q + 'validate_hour', params=dict(hour=INT), returns=BOOL,
         ensures=['result == (0 <= hour <= 23)'], properties=['C18'])
contract(Q + 'validate_minutes', params=dict(minutes=INT), returns=BOOL,
         ensures=['result == (0 <= minutes <= 59)'], properties=['C18'])

OptStr = TOpt(STR)
NumTup = TSeq(REAL)
contract(Q + 'parse_value', params=dict(itype=STR, value=OptStr), returns=TOpt(NumTup),
         ensures=['result == html_value(itype, value)',
                  "implies(not (itype == 'date' or itype == 'month' or itype == 'week' or itype == 'time' or itype == 'datetime-local' or "
                  "itype == 'number' or itype == 'range'), is_none(result))"],
         locals=dict(parsed=TOpt(NumTup)),
         kf_region="itype == 'week' and (not is_none(value)) and week53_lenient(value)", kf_id='C18-week53-lenient',
         properties=['C18', 'C08'])
