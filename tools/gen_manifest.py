#!/usr/bin/env python3
"""Regenerates MANIFEST.json from the props/*.py modules (claimed checks) and NOT_APPLICABLE below."""
import importlib, json, os, sys
HERE = os.path.dirname(os.path.dirname(os.path.abspath(__file__)))
sys.path.insert(0, HERE)
props = [json.loads(l) for l in open(os.path.join(HERE, 'properties.jsonl'))]
NOT_APPLICABLE = {
    'C07': 'parsing-time bound: the cost is spent inside CPython\'s C regex engine, for which no source-level contract within '
           'reach of a VC generator can state or decide a step bound (DESIGN.md section 11); not switched to another technique',
}
checks, na = [], []
for p in props:
    pid = p['id']
    path = os.path.join(HERE, 'props', pid + '.py')
    if pid in NOT_APPLICABLE or not os.path.exists(path):
        na.append(dict(property_id=pid, reason=NOT_APPLICABLE.get(pid, 'check not built yet (build in progress)')))
        continue
    src = open(path).read()
    ns = {}
    exec(compile(src, path, 'exec'), ns)
    checks.append(dict(
        property_id=pid,
        quick_cmd=f'./vcheck {pid} quick',
        thorough_cmd=f'./vcheck {pid} thorough',
        evidence_file=f'/verif/evidence/{pid}.json',
        replay_cmd_template='cat {path}',
        engine='pyvc',
        level_claimed=dict(category=ns.get('MANIFEST_LEVEL', 'proof' if ns.get('LEVEL', 'proof') == 'proof' else 'other'),
                           text=ns.get('LEVEL_TEXT', ns.get('EXPLANATION', '')), design_ref=ns.get('DESIGN_REF', f'DESIGN.md section 10, {pid}')),
        level_note='; '.join(ns.get('TRUSTED', [])),
        technique=ns.get('TECHNIQUE', 'contract-based deductive verification: VCs generated from the real function ASTs under sidecar contracts, discharged by z3/cvc5'),
    ))
m = dict(version=1, setup_cmd='./setup.sh',
         hooks=dict(guard='SOUPSIEVE_VERIF', enable='no hooks: contracts are sidecar files keyed by qualified function name and loop ordinal; /repo is read on every run, never instrumented',
                    baseline_off_cmd='cd /repo && /venv/bin/python -m pytest -q -p no:cacheprovider --timeout=900', source_commits=[], add_only=True),
         engines=[dict(name='pyvc', path='/verif/pyvc', serves_properties=[c['property_id'] for c in checks],
                       kind_free_text='self-built verification-condition generator for a stated subset of Python (ast -> z3/cvc5), sidecar contracts, dual-use executable specs')],
         checks=checks, not_applicable=na,
         notes='Known findings: /verif/known_findings.json (committed, never written at run time). Exit codes: 0 held, 1 violation, 2 undecided, 3 engine error.')
json.dump(m, open(os.path.join(HERE, 'MANIFEST.json'), 'w'), indent=1)
print(len(checks), 'checks;', len(na), 'not applicable')
