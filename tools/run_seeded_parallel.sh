#!/bin/bash
# Every seeded change and regression against its property's quick check, N at a time, each on its own scratch copy of /repo (VERIF_REPO);
# /repo itself is not touched.  Results: /tmp/par_results.tsv (id, property, exit code).  usage: tools/run_seeded_parallel.sh [N]
N=${1:-4}
cd /verif
rm -rf /tmp/par; mkdir -p /tmp/par; : > /tmp/par_results.tsv
one() {
  id=$1; prop=$2
  d=/tmp/par/$id
  mkdir -p $d && git -C /repo archive HEAD | tar -x -C $d && (cd $d && patch -p1 -s < /verif/seeded/$id/patch.diff) || { printf "%s\t%s\tpatch-failed\n" $id $prop >> /tmp/par_results.tsv; return; }
  VERIF_REPO=$d VERIF_EVIDENCE_DIR=/tmp/par/ev_$id VERIF_SEED=1 ./vcheck $prop quick > /tmp/par/$id.out 2>&1; rc=$?
  printf "%s\t%s\t%s\n" $id $prop $rc >> /tmp/par_results.tsv
  rm -rf $d /tmp/par/ev_$id
}
list=$(for s in seeded/*-m*/; do n=$(basename $s); echo "$n ${n%%-*}"; done; for d in seeded/R-*/; do n=$(basename $d); python3 -c "
import json;m=json.load(open('$d/meta.json'))
if m['applies_to_head']: print('$n', m['property'])"; done)
while read id prop; do
  [ -n "$id" ] || continue
  while [ $(jobs -r | wc -l) -ge $N ]; do sleep 2; done
  one $id $prop &
done <<< "$list"
wait
sort /tmp/par_results.tsv -o /tmp/par_results.tsv
cut -f3 /tmp/par_results.tsv | sort | uniq -c
