#!/bin/sh
# all quick checks on the clean tree, then every seeded change; summary in /tmp/everything.log
cd /verif
: > /tmp/everything.log
for p in C01 C02 C03 C04 C05 C06 C08 C09 C10 C11 C12 C13 C14 C15 C16 C17 C18 C19 C20; do
  VERIF_SEED=1 ./vcheck $p quick > /tmp/all_$p.out 2>&1; echo "CLEAN $p exit=$? $(tail -1 /tmp/all_$p.out | cut -c1-140)" >> /tmp/everything.log
done
tools/run_all_seeded.sh > /dev/null 2>&1
tools/run_regressions.sh > /dev/null 2>&1
echo "SEEDED: $(cut -f3 seeded/RESULTS.tsv | sort | uniq -c | tr '\n' ' ')" >> /tmp/everything.log
echo "REGRESSIONS: $(cut -f3 seeded/REGRESSIONS.tsv | sort | uniq -c | tr '\n' ' ')" >> /tmp/everything.log
awk -F'\t' '$3!=1' seeded/RESULTS.tsv seeded/REGRESSIONS.tsv >> /tmp/everything.log
echo DONE >> /tmp/everything.log
