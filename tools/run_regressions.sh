#!/bin/sh
cd /verif
: > seeded/REGRESSIONS.tsv
for d in seeded/R-*/; do s=$(basename $d); p=$(python3 -c "import json;m=json.load(open('$d/meta.json'));print(m['property'] if m['applies_to_head'] else '')"); [ -n "$p" ] || continue
  out=$(tools/run_seeded.sh $s $p 2>&1); rc=$(echo "$out" | tail -1 | sed 's/.*exit //')
  first=$(echo "$out" | grep -m1 -E "^(VIOLATION|UNDECIDED|ENGINE-ERROR)" | cut -c1-170)
  printf "%s\t%s\t%s\t%s\n" "$s" "$p" "$rc" "$first" >> seeded/REGRESSIONS.tsv
done
cat seeded/REGRESSIONS.tsv | cut -f1-3
