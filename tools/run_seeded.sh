#!/bin/sh
# usage: tools/run_seeded.sh <seeded-id> <property> [tier]   -- applies the patch to /repo, runs the check, ALWAYS reverts
S=/verif/seeded/$1; P=$2; T=${3:-quick}
cd /verif
if [ -n "$(git -C /repo status --porcelain)" ]; then echo "/repo not clean"; exit 9; fi
git -C /repo apply "$S/patch.diff" || { echo "patch does not apply"; exit 9; }
find /repo/soupsieve -name __pycache__ -prune -exec rm -rf {} + 2>/dev/null
VERIF_EVIDENCE_DIR=/tmp/seeded_evidence ./vcheck $P $T > /tmp/seeded_$1_$P.out 2>&1; rc=$?
git -C /repo checkout -- . ; find /repo/soupsieve -name __pycache__ -prune -exec rm -rf {} + 2>/dev/null
grep -E "^(VIOLATION|UNDECIDED|ENGINE-ERROR)" /tmp/seeded_$1_$P.out | cut -c1-230 | head -5
tail -1 /tmp/seeded_$1_$P.out | cut -c1-200
echo "== $1 on $P: exit $rc"
