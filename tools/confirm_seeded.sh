#!/bin/sh
# usage: tools/confirm_seeded.sh <dir with patch.diff demo.py meta.json>
# Confirms in a scratch worktree (removed afterwards): patch applies, suite passes (381), demo fails with it and passes without.
D=$(cd "$1" && pwd)
WT=$(mktemp -d /tmp/confirm.XXXXXX)
rmdir "$WT"
git -C /repo worktree add -q --detach "$WT" HEAD || exit 2
cd "$WT" || exit 2
mkdir -p MUTANTS/m && cp "$D/demo.py" MUTANTS/m/demo.py
find . -name __pycache__ -prune -exec rm -rf {} + 2>/dev/null
clean=$(/venv/bin/python MUTANTS/m/demo.py >/tmp/confirm.clean.out 2>&1; echo $?)
if git apply "$D/patch.diff"; then applied=yes; else applied=no; fi
find . -name __pycache__ -prune -exec rm -rf {} + 2>/dev/null
tests=$(/venv/bin/python -m pytest -q -p no:cacheprovider -n 8 2>&1 | tail -1)
mut=$(/venv/bin/python MUTANTS/m/demo.py >/tmp/confirm.mut.out 2>&1; echo $?)
cd /
git -C /repo worktree remove --force "$WT"
echo "applied=$applied clean_exit=$clean mutant_exit=$mut tests='$tests'"
case "$tests" in *"381 passed"*) t=ok;; *) t=bad;; esac
[ "$applied" = yes ] && [ "$clean" = 0 ] && [ "$mut" != 0 ] && [ $t = ok ]
