#!/bin/sh
# For every fixed entry in known_findings.json: the reverse of the fix commit as a seeded change seeded/R-<commit>/
cd /verif
python3 - <<'PY'
import json, subprocess, os
kf = json.load(open('/verif/known_findings.json'))
for e in kf['fixed']:
    c = e['commit']; d = f'/verif/seeded/R-{c}'
    os.makedirs(d, exist_ok=True)
    diff = subprocess.run(['git', '-C', '/repo', 'diff', c, c + '~1'], capture_output=True, text=True).stdout
    open(d + '/patch.diff', 'w').write(diff)
    ok = subprocess.run(['git', '-C', '/repo', 'apply', '--check', d + '/patch.diff'], capture_output=True).returncode == 0
    json.dump(dict(id=f'R-{c}', property=e['property'], summary='reverse of fix commit ' + c + ': ' + e['what'], origin='regression of a repaired defect',
                   applies_to_head=ok, needs='see the fix commit message for the triggering input'), open(d + '/meta.json', 'w'), indent=1)
    print(c, e['property'], 'applies' if ok else 'DOES NOT APPLY (overlaps a later fix)')
PY
