#!/bin/sh
# Runs every seeded change against the check of its property; writes seeded/RESULTS.tsv (id, property, exit code, first finding line)
cd /verif
: > seeded/RESULTS.tsv
for d in seeded/*-*/; do s=$(basename $d); p=${s%%-*}; [ -f props/$p.py ] || continue
  out=$(tools/run_seeded.sh $s $p 2>&1); rc=$(echo "$out" | tail -1 | sed 's/.*exit //')
  first=$(echo "$out" | grep -m1 -E "^(VIOLATION|UNDECIDED|ENGINE-ERROR)" | cut -c1-160)
  printf "%s\t%s\t%s\t%s\n" "$s" "$p" "$rc" "$first" >> seeded/RESULTS.tsv
  echo "$s $rc"
done
