#!/bin/sh
# every thorough command once on the clean tree; summary in /tmp/thorough.log (evidence is redirected so that evidence/ keeps the quick runs)
cd /verif
: > /tmp/thorough.log
for p in ${*:-C20 C16 C15 C14 C09 C06 C10 C18 C05 C12 C11 C02 C19 C03 C17 C13 C01 C04 C08}; do
  t0=$(date +%s)
  VERIF_SEED=1 VERIF_EVIDENCE_DIR=/tmp/thorough_evidence timeout 10800 ./vcheck $p thorough > /tmp/thorough_$p.out 2>&1; rc=$?
  echo "THOROUGH $p exit=$rc $(( $(date +%s) - t0 ))s $(tail -1 /tmp/thorough_$p.out | sed 's/obligations discharged.*bounded/.. bounded/' | cut -c1-170)" >> /tmp/thorough.log
done
echo DONE >> /tmp/thorough.log
