"""Tree vocabulary over real bs4 objects (concrete side of the primitives; symbolic side: pyvc/tree.py).
Every function here is a thin read of the bs4 object model (assumption A-bs4)."""
from __future__ import annotations
import soupsieve  # noqa: F401  (must be imported before bs4 on the pinned tree)
import bs4
from pyvc.dsl import prim

NS_XHTML = 'http://www.w3.org/1999/xhtml'
NS_XML = 'http://www.w3.org/XML/1998/namespace'


@prim
def parent(n):
    return None if n is None else n.parent


@prim
def contents(n):
    return list(n.contents) if isinstance(n, bs4.Tag) or hasattr(n, 'contents') else []


@prim
def idx(n):
    p = n.parent
    for i, c in enumerate(p.contents):
        if c is n:
            return i
    return -1


@prim
def descendants(n):
    return list(n.descendants) if hasattr(n, 'descendants') and not isinstance(n, str) else []


@prim
def dsize(n):
    """Number of proper descendants."""
    return len(descendants(n))


@prim
def dindex(e, x):
    """Position of node x among e.descendants (identity), their number when x is not one of them."""
    d = descendants(e)
    for i, y in enumerate(d):
        if y is x:
            return i
    return len(d)


@prim
def next_element(n):
    return n.next_element


@prim
def unesc_plain(s):
    """RE_CSS_ESC.sub(replace, s): every escape of an identifier replaced by what it stands for."""
    from soupsieve import css_parser as cp
    return cp.css_unescape(s, False)


@prim
def unesc_string(s):
    """RE_CSS_STR_ESC.sub(replace, s): the same inside a quoted string (an escaped newline stands for nothing)."""
    from soupsieve import css_parser as cp
    return cp.css_unescape(s, True)


@prim
def rv_starts(s):
    """Start offsets of the tokens RE_VALUES.finditer(s) yields (values and separators of a value list)."""
    from soupsieve import css_parser as cp
    return [m.start(0) for m in cp.RE_VALUES.finditer(s)]


@prim
def rv_split(s, p):
    from soupsieve import css_parser as cp
    return cp.RE_VALUES.match(s, p).group('split')


@prim
def rv_value(s, p):
    from soupsieve import css_parser as cp
    return cp.RE_VALUES.match(s, p).group('value')


@prim
def ls_starts(s):
    """Start offsets of the matches RE_PATTERN_LINE_SPLIT.finditer(s) yields: the line breaks of s, then the end of s."""
    import soupsieve.util as su
    return [m.start(0) for m in su.RE_PATTERN_LINE_SPLIT.finditer(s)]


@prim
def ls_end(s, p):
    """End offset of the line-split match that starts at p."""
    import soupsieve.util as su
    return su.RE_PATTERN_LINE_SPLIT.match(s, p).end(0)


@prim
def height(n):
    """Height of the subtree at n (0 for a leaf): the termination measure of recursive descents."""
    kids = getattr(n, 'contents', None)
    if not kids or isinstance(n, str):
        return 0
    return 1 + max(height(c) for c in kids)


@prim
def bidi_class(c):
    import unicodedata
    return unicodedata.bidirectional(c)


@prim
def depth(n):
    d = 0
    while n is not None and n.parent is not None:
        n = n.parent
        d += 1
    return d


@prim
def is_tag(n):
    return isinstance(n, bs4.Tag)


@prim
def is_doc(n):
    return isinstance(n, bs4.BeautifulSoup)


@prim
def is_navstr(n):
    return isinstance(n, bs4.element.NavigableString)


@prim
def is_comment(n):
    return isinstance(n, bs4.Comment)


@prim
def is_cdata(n):
    return isinstance(n, bs4.CData)


@prim
def is_pi(n):
    return isinstance(n, bs4.ProcessingInstruction)


@prim
def is_decl(n):
    return isinstance(n, bs4.Declaration)


@prim
def is_doctype(n):
    return isinstance(n, bs4.Doctype)


@prim
def text(n):
    return str(n) if isinstance(n, str) else ''


@prim
def name(n):
    return n.name


@prim
def prefix(n):
    return n.prefix


@prim
def namespace(n):
    return n.namespace


@prim
def is_xml_flag(n):
    return bool(n._is_xml)


@prim
def next_sibling(n):
    return n.next_sibling


@prim
def previous_sibling(n):
    return n.previous_sibling


@prim
def same(a, b):
    """Object identity (Python `is`)."""
    return a is b


@prim
def ascii_lower(s):
    return ''.join(chr(ord(c) + 32) if 'A' <= c <= 'Z' else c for c in s)


@prim
def ns_get(ns, key):
    return ns.get(key) if ns is not None else None


@prim
def html_ns_map():
    return {'html': NS_XHTML}


@prim
def html_free_map():
    """The empty prefix map."""
    return {}


@prim
def fake_parent(el):
    """Stand-in parent of a detached element (holds exactly [el])."""
    from soupsieve import css_match as cm
    return cm._FakeParent(el)


@prim
def rattrs(el):
    """el.attrs.items() as (key, raw value) pairs."""
    return [(str(k), v) for k, v in el.attrs.items()]


@prim
def norm(v):
    from spec import css_ref
    return css_ref.norm_value(v)


@prim
def as_str(v):
    """A normalised attribute value seen as Optional[str] (only meaningful when it is None or a string)."""
    return v


@prim
def is_str_val(v):
    return v is None or isinstance(v, str)


@prim
def ws_tokens(s):
    """Maximal runs of characters other than CSS whitespace (space, tab, LF, CR, FF)."""
    import re
    return re.findall('[^ \t\r\n\f]+', s)


@prim
def is_list_val(v):
    return isinstance(v, (list, tuple))


@prim
def as_list(v):
    return list(v)


@prim
def attr_ns(el, k):
    """Namespace URI of attribute key k of el (None for a plain string key)."""
    for kk in el.attrs:
        if str(kk) == k:
            return getattr(kk, 'namespace', None)
    return None


@prim
def attr_local(el, k):
    for kk in el.attrs:
        if str(kk) == k:
            return getattr(kk, 'name', None)
    return None


@prim
def pat_match(p, s):
    return p.match(s) is not None


@prim
def join_sp(xs):
    return ' '.join(xs)


@prim
def has_non_ws(s):
    """Contains a character other than CSS whitespace."""
    import re
    return re.search('[^ \t\r\n\f]', s) is not None


@prim
def strip_nonempty(s):
    """str.strip() leaves something."""
    return bool(s.strip())


@prim
def wild_strip(r):
    """Remove '-*' runs that are followed by '-' or the end (a non-leading wildcard is redundant, RFC 4647 3.3.2)."""
    import re
    return re.sub(r'(?:-\*)+(?=-|\Z)', '', r)


@prim
def py_lower(s):
    return s.lower()


@prim
def split_dash(s):
    return s.split('-')


@prim
def join_empty(xs):
    return ''.join(xs)
