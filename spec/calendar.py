"""HTML date/time validity (C18, C08). Transcribed from the HTML standard ("valid date string", "week number
of the last day", ...) and ISO 8601, not from the code.  Dual use: translated to SMT, and executed by CPython."""
from __future__ import annotations
from pyvc.types import INT, BOOL, REAL, TSeq, TOpt, STR

NumTup = TSeq(REAL)


def is_leap(y: int) -> bool:
    return (y % 4 == 0 and y % 100 != 0) or y % 400 == 0


def dim(y: int, m: int) -> int:
    if m == 2:
        return 29 if is_leap(y) else 28
    if m == 4 or m == 6 or m == 9 or m == 11:
        return 30
    return 31


def p_dec31(y: int) -> int:
    """Weekday of 31 December of year y (0 = Sunday)."""
    return (y + y // 4 - y // 100 + y // 400) % 7


def weeks(y: int) -> int:
    """Number of ISO-8601 weeks of year y: 53 iff 1 Jan is a Thursday, or a Wednesday in a leap year."""
    return 53 if p_dec31(y) == 4 or p_dec31(y - 1) == 3 else 52


def valid_day(y: int, m: int, d: int) -> bool:
    return 1 <= d <= dim(y, m)


def valid_week(y: int, w: int) -> bool:
    return 1 <= w <= weeks(y)


# ---- "valid ... string" shapes of the HTML standard (ASCII digits only, nothing before or after) ----------
from spec.prims import fullmatch, dec, fdec   # noqa: E402

OptStr = TOpt(STR)
OptNumTup = TOpt(NumTup)

SHAPE_DATE = '[0-9]{4,}-[0-9]{2}-[0-9]{2}'
SHAPE_MONTH = '[0-9]{4,}-[0-9]{2}'
SHAPE_WEEK = '[0-9]{4,}-W[0-9]{2}'
SHAPE_TIME = '[0-9]{2}:[0-9]{2}'
SHAPE_DATETIME = '[0-9]{4,}-[0-9]{2}-[0-9]{2}T[0-9]{2}:[0-9]{2}'
SHAPE_NUMBER = '-?([0-9]+(\\.[0-9]+)?|\\.[0-9]+)'


def html_date(s: str) -> OptNumTup:
    if not fullmatch(SHAPE_DATE, s):
        return None
    y = dec(s[:-6])
    m = dec(s[-5:-3])
    d = dec(s[-2:])
    if y >= 1 and 1 <= m <= 12 and valid_day(y, m, d):
        return (y, m, d)
    return None


def html_month(s: str) -> OptNumTup:
    if not fullmatch(SHAPE_MONTH, s):
        return None
    y = dec(s[:-3])
    m = dec(s[-2:])
    if y >= 1 and 1 <= m <= 12:
        return (y, m)
    return None


def html_week(s: str) -> OptNumTup:
    if not fullmatch(SHAPE_WEEK, s):
        return None
    y = dec(s[:-4])
    w = dec(s[-2:])
    if y >= 1 and valid_week(y, w):
        return (y, w)
    return None


def html_time(s: str) -> OptNumTup:
    if not fullmatch(SHAPE_TIME, s):
        return None
    h = dec(s[:2])
    mi = dec(s[3:])
    if 0 <= h <= 23 and 0 <= mi <= 59:
        return (h, mi)
    return None


def html_datetime(s: str) -> OptNumTup:
    if not fullmatch(SHAPE_DATETIME, s):
        return None
    y = dec(s[:-12])
    m = dec(s[-11:-9])
    d = dec(s[-8:-6])
    h = dec(s[-5:-3])
    mi = dec(s[-2:])
    if y >= 1 and 1 <= m <= 12 and valid_day(y, m, d) and 0 <= h <= 23 and 0 <= mi <= 59:
        return (y, m, d, h, mi)
    return None


def html_number(s: str) -> OptNumTup:
    if not fullmatch(SHAPE_NUMBER, s):
        return None
    return (fdec(s),)


def html_value(itype: str, value: OptStr) -> OptNumTup:
    """The comparable value of a min/max/value attribute of <input type=itype>, None when missing or invalid."""
    if value is None:
        return None
    if itype == 'date':
        return html_date(value)
    if itype == 'month':
        return html_month(value)
    if itype == 'week':
        return html_week(value)
    if itype == 'time':
        return html_time(value)
    if itype == 'datetime-local':
        return html_datetime(value)
    if itype == 'number' or itype == 'range':
        return html_number(value)
    return None


def week53_lenient(s: str) -> bool:
    """Region of known finding C18-week53-lenient, in terms of a week string."""
    return fullmatch(SHAPE_WEEK, s) and dec(s[-2:]) == 53 and 1 <= p_dec31(dec(s[:-4])) <= 3
