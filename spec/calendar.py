"""HTML date/time validity (C18, C08). Transcribed from the HTML standard ("valid date string", "week number
of the last day", ...) and ISO 8601, not from the code.  Dual use: translated to SMT, and executed by CPython."""
from __future__ import annotations
from pyvc.types import INT, BOOL, REAL, TSeq, TOpt, STR

NumTup = TSeq(REAL)


def is_leap(y: int) -> bool:
    return (y % 4 == 0 and y % 100 != 0) or y % 400 == 0


def dim(y: int, m: int) -> int:
    if m == 2:
        return 29 if is_leap(y) else 28
    if m == 4 or m == 6 or m == 9 or m == 11:
        return 30
    return 31


def p_dec31(y: int) -> int:
    """Weekday of 31 December of year y (0 = Sunday)."""
    return (y + y // 4 - y // 100 + y // 400) % 7


def weeks(y: int) -> int:
    """Number of ISO-8601 weeks of year y: 53 iff 1 Jan is a Thursday, or a Wednesday in a leap year."""
    return 53 if p_dec31(y) == 4 or p_dec31(y - 1) == 3 else 52


def valid_day(y: int, m: int, d: int) -> bool:
    return 1 <= d <= dim(y, m)


def valid_week(y: int, w: int) -> bool:
    return 1 <= w <= weeks(y)
