"""String-level specifications (C09.O1, C10): ASCII lower-casing and CSSOM 'serialize an identifier'.
Strings are sequences of code points (cps)."""
from __future__ import annotations
from pyvc.types import INT, BOOL, CPS, TSeq
from spec.prims import cp, hexdigits

SeqCps = TSeq(CPS)


def lower1(c: int) -> int:
    return c + 32 if 0x41 <= c <= 0x5A else c


def lower_upto(s: CPS, i: int) -> CPS:
    """ASCII lower-casing of the first i code points of s."""
    if i <= 0:
        return ''
    return lower_upto(s, i - 1) + cp(lower1(ord(s[i - 1])))


def lower_cps(s: CPS) -> CPS:
    """ASCII lower-casing: A-Z -> a-z, everything else unchanged."""
    return lower_upto(s, len(s))


# ---- CSSOM "serialize an identifier" (https://drafts.csswg.org/cssom/#serialize-an-identifier) -------------

def hex_escape(c: int) -> CPS:
    """'\\' + code point as lower-case hex + ' '"""
    return cp(0x5C) + hexdigits(c) + cp(0x20)


def is_ident_plain(c: int) -> bool:
    return (c >= 0x80 or c == 0x2D or c == 0x5F or (0x30 <= c <= 0x39) or (0x41 <= c <= 0x5A) or (0x61 <= c <= 0x7A))


def piece(s: CPS, i: int) -> CPS:
    c = ord(s[i])
    if c == 0:
        return cp(0xFFFD)
    if (1 <= c <= 0x1F) or c == 0x7F:
        return hex_escape(c)
    if 0x30 <= c <= 0x39 and (i == 0 or (i == 1 and ord(s[0]) == 0x2D)):
        return hex_escape(c)
    if i == 0 and c == 0x2D and len(s) == 1:
        return cp(0x5C) + cp(c)
    if is_ident_plain(c):
        return cp(c)
    return cp(0x5C) + cp(c)


def esc_spec(s: CPS, i: int) -> CPS:
    """Serialisation of the first i code points of s."""
    if i <= 0:
        return ''
    return esc_spec(s, i - 1) + piece(s, i - 1)
