"""Executable reference semantics for the sub-specs that are abstract in SMT (CPython only; used for replay and the
bounded tier).  Written from the property statements / the standards they name:
C02 An+B, C12 attribute namespaces, C13 RFC 4647 + inherited language, C17 HTML state pseudo-classes, C18 ranges,
C19 text content, C01 :root/:empty.  Where a property is silent the reference is *guarded*: it returns GUARD (None)
and the caller skips the comparison instead of demanding more than the property states."""
from __future__ import annotations
import re
import unicodedata
import soupsieve  # noqa: F401
import bs4
from soupsieve import css_types as ct
from spec import calendar as cal

NS_XHTML = 'http://www.w3.org/1999/xhtml'
NS_XML = 'http://www.w3.org/XML/1998/namespace'
WS = ' \t\n\r\f'


def lower(s):
    return ''.join(chr(ord(c) + 32) if 'A' <= c <= 'Z' else c for c in s)


def is_element(n):
    return isinstance(n, bs4.Tag) and not isinstance(n, bs4.BeautifulSoup)


def is_special(n):
    return isinstance(n, (bs4.Comment, bs4.Declaration, bs4.CData, bs4.ProcessingInstruction, bs4.Doctype))


def is_content(n):
    return isinstance(n, bs4.element.NavigableString) and not is_special(n)


def supports_ns(m):
    return m.is_xml or m.has_html_namespace


def tag_ns(m, el):
    if el is None:
        return ''
    if supports_ns(m):
        return el.namespace or ''
    return NS_XHTML


def is_html_el(m, el):
    return tag_ns(m, el) == NS_XHTML


def tag_name(m, el):
    return el.name if m.is_xml else lower(el.name)


def is_iframe_el(m, el):
    if el is None:
        return False
    return (el.name if el._is_xml else lower(el.name)) == 'iframe' and is_html_el(m, el)


# ---------------------------------------------------------------------------------------------- attributes

def norm_value(v):
    if v is None:
        return ''
    if isinstance(v, str):
        return str(v)
    if isinstance(v, bytes):
        return v.decode('utf8', 'replace')
    if isinstance(v, (list, tuple)):
        out = []
        for x in v:
            if not isinstance(x, (str, bytes)) and isinstance(x, (list, tuple)):
                out.append(str(x))
            else:
                out.append(norm_value(x))
        return out
    return str(v)


def attr_by_name(m_or_el_xml, el, name_, default=None):
    """Value of the attribute called name_ (compared exactly in XML trees, ASCII case-insensitively otherwise)."""
    if el._is_xml:
        return norm_value(el.attrs[name_]) if name_ in el.attrs else default
    for k, v in el.attrs.items():
        if lower(k) == name_:
            return norm_value(v)
    return default


def attr_lookup(m, ns, el, attr, prefix):
    """C12: [ns|a] attribute a in the mapped namespace (unmapped -> nothing); [*|a] a in any namespace or none;
    [|a] / [a] the attribute without a namespace.  Names compare exactly in XML, ASCII case-insensitively otherwise."""
    def eq(a, b):
        return a == b if m.is_xml else lower(a) == lower(b)
    if not supports_ns(m):
        for k, v in el.attrs.items():
            if lower(attr) == lower(k):
                return norm_value(v)
        return None
    want = None
    if prefix and prefix != '*':
        want = (ns or {}).get(prefix)
        if want is None:
            return None
    for k, v in el.attrs.items():
        k_ns = getattr(k, 'namespace', None)
        k_local = getattr(k, 'name', None)
        if prefix == '*':
            local = k_local if (k_ns is not None and k_local is not None) else k
            if eq(attr, local):
                return norm_value(v)
        elif not prefix:
            if eq(attr, k):
                return norm_value(v)
        else:
            if k_ns is not None and k_ns == want and k_local is not None and eq(attr, k_local):
                return norm_value(v)
    return None


def sem_attrs(m, ns, el, attrs):
    for a in attrs:
        v = attr_lookup(m, ns, el, a.attribute, a.prefix)
        if v is None:
            return False
        pat = a.xml_type_pattern if (m.is_xml and a.xml_type_pattern) else a.pattern
        if pat is None:
            continue
        if pat.match(v if isinstance(v, str) else ' '.join(v)) is None:
            return False
    return True


def sem_ids(m, el, ids):
    return all(i == attr_by_name(m, el, 'id', '') for i in ids)


def classes_of(m, el):
    c = attr_by_name(m, el, 'class', [])
    if isinstance(c, str):
        c = [x for x in re.split('[ \t\r\n\f]+', c) if x]
    return c


def sem_classes(m, el, classes):
    cur = classes_of(m, el)
    return all(c in cur for c in classes)


# ---------------------------------------------------------------------------------------------- structure

def kids(m, el, no_iframe=False):
    if el is None or (no_iframe and is_iframe_el(m, el)):
        return []
    return list(el.contents)


def tag_children(m, el, no_iframe):
    return [c for c in kids(m, el, no_iframe) if isinstance(c, bs4.Tag)]


def descendants(m, el, no_iframe):
    """Pre-order descendants; with no_iframe the content of an iframe element (and of el itself if it is one) is skipped."""
    out = []
    if el is None or (no_iframe and is_iframe_el(m, el)):
        return out
    for c in el.contents:
        out.append(c)
        if isinstance(c, bs4.Tag) and not (no_iframe and is_iframe_el(m, c)):
            out.extend(descendants(m, c, no_iframe))
    return out


def tag_desc(m, el, no_iframe):
    return [c for c in descendants(m, el, no_iframe) if isinstance(c, bs4.Tag)]


def sem_empty(m, el):
    """No element child and no text child containing a non-whitespace character (comments, PIs ... ignored)."""
    for c in el.contents:
        if isinstance(c, bs4.Tag):
            return False
        if is_content(c) and any(ch not in WS for ch in c):
            return False
    return True


def sem_root(m, el):
    """Top element of its document with no sibling element / non-whitespace text / CDATA (the code's reading; the
    property is silent about soups with several top-level nodes, so this mirrors the implementation there)."""
    top = (m.root is not None and m.root is el) or (el.parent is not None and m.is_html and is_iframe_el(m, el.parent))
    if not top:
        return False
    sib = el.previous_sibling
    while sib is not None:
        if isinstance(sib, bs4.Tag) or (is_content(sib) and sib.strip()) or isinstance(sib, bs4.CData):
            return False
        sib = sib.previous_sibling
    sib = el.next_sibling
    while sib is not None:
        if isinstance(sib, bs4.Tag) or (is_content(sib) and sib.strip()) or isinstance(sib, bs4.CData):
            return False
        sib = sib.next_sibling
    return True


def sem_defined(m, el):
    n = tag_name(m, el)
    pfx = el.prefix
    if pfx is not None and not m.is_xml:
        pfx = lower(pfx)
    return n.find('-') == -1 or n.find(':') != -1 or pfx is not None


# ---------------------------------------------------------------------------------------------- An+B (C02)

def anb(a, b, var, q):
    if not var:
        return a == q
    if a == 0:
        return b == q
    d = q - b
    return d % a == 0 and d // a >= 0


def sem_nth(m, ns, ifr, el, nth, sem_list):
    for n in nth:
        if len(n.selectors) and not sem_list(m, ns, ifr, el, n.selectors):
            return False
        parent = el.parent
        sibs = list(parent.contents) if parent is not None else [el]
        if n.last:
            sibs = sibs[::-1]
        pos = 0
        for c in sibs:
            if not isinstance(c, bs4.Tag):
                continue
            if len(n.selectors) and not sem_list(m, ns, ifr, c, n.selectors):
                continue
            if n.of_type and not (tag_name(m, c) == tag_name(m, el) and tag_ns(m, c) == tag_ns(m, el)):
                continue
            pos += 1
            if c is el:
                break
        if not anb(n.a, n.b, n.n, pos):
            return False
    return True


# ---------------------------------------------------------------------------------------------- text (C19, C17)

def text_of(m, el, no_iframe):
    return ''.join(str(n) for n in descendants(m, el, no_iframe) if is_content(n))


def own_texts(m, el, no_iframe):
    return [str(n) for n in kids(m, el, no_iframe) if is_content(n)]


def sem_contains(m, el, contains):
    for c in contains:
        if c.own:
            if not any(t in s for t in c.text for s in own_texts(m, el, m.is_html)):
                return False
        else:
            whole = text_of(m, el, m.is_html)
            if not any(t in whole for t in c.text):
                return False
    return True


def sem_placeholder(m, el):
    return text_of(m, el, False) in ('', '\n')


# ---------------------------------------------------------------------------------------------- :lang() (C13)

def rfc4647(rng, tag):
    rng, tag = rng.lower(), tag.lower()
    if rng == '':
        return tag == ''
    if tag == '':
        return False
    R, T = rng.split('-'), tag.split('-')
    if any(r == '' for r in R) or any(t == '' for t in T):
        return None           # guarded: malformed range or tag (an empty subtag): the property is silent
    if R[0] != '*' and R[0] != T[0]:
        return False
    ri, ti = 1, 1
    while ri < len(R):
        if R[ri] == '*':
            ri += 1
            continue
        if ti >= len(T):
            return False
        if R[ri] == T[ti]:
            ri += 1
            ti += 1
            continue
        if len(T[ti]) == 1:
            return False
        ti += 1
    return True


def parent_same_doc(m, el):
    p = el.parent
    if p is None:
        return None
    if m.is_html and is_iframe_el(m, p):
        return None
    return p


def own_lang(m, el):
    has_ns = supports_ns(m)
    html_ns = el.namespace == NS_XHTML if el.namespace else False
    for k, v in el.attrs.items():
        k_ns = getattr(k, 'namespace', None)
        k_local = getattr(k, 'name', None)
        if (not has_ns or html_ns) and (k if m.is_xml else lower(k)) == 'lang':
            return norm_value(v)
        if has_ns and not html_ns and k_ns == NS_XML and k_local is not None and (k_local if m.is_xml else lower(k_local)) == 'lang':
            return norm_value(v)
    return None


def meta_lang(m, top):
    """content of the first <meta http-equiv=content-language content=...> in html > head of the document whose top node is `top`."""
    cur = top
    for want in ('html', 'head'):
        nxt = None
        for c in tag_children(m, cur, m.is_html):
            if tag_name(m, c) == want and is_html_el(m, c):
                nxt = c
                break
        if nxt is None:
            return None
        cur = nxt
    for c in cur.contents:
        if isinstance(c, bs4.Tag) and tag_name(m, c) == 'meta' and is_html_el(m, cur):
            c_lang = False
            content = None
            for k, v in c.attrs.items():
                v = norm_value(v)
                if lower(k) == 'http-equiv' and isinstance(v, str) and lower(v) == 'content-language':
                    c_lang = True
                if lower(k) == 'content':
                    content = v
                if c_lang and content:
                    return content
    return None


def lang_of(m, el):
    cur, last = el, el
    while cur is not None:
        v = own_lang(m, cur)
        if v is not None:
            return v, None
        last = cur
        cur = parent_same_doc(m, cur)
    return None, last


def sem_lang(m, el, langs):
    found, top = lang_of(m, el)
    if found is None:
        html_doc = (not m.is_xml) or ((top.namespace == NS_XHTML if top is not None and isinstance(top, bs4.Tag) and top.namespace else False)
                                       and top is not None and top.name == 'html')
        if html_doc:
            found = meta_lang(m, top)
    if found is None:
        return False
    if not isinstance(found, str):
        return None
    for L in langs:
        ok = False
        for r in L.languages:
            x = rfc4647(strip_wild(r), found)
            if x is None:
                return None
            ok = ok or x
        if not ok:
            return False
    return True


def strip_wild(r):
    """RFC 4647 3.3.2: a '*' that is not the first subtag matches any sequence of subtags including none, i.e. it is redundant."""
    parts = r.split('-')
    return '-'.join([parts[0]] + [p for p in parts[1:] if p != '*'])


# ---------------------------------------------------------------------------------------------- ranges (C18)

def sem_range(m, el, cond):
    itype = attr_by_name(m, el, 'type', '')
    if not isinstance(itype, str):
        return None
    itype = lower(itype)

    def val(name_):
        v = attr_by_name(m, el, name_, None)
        if v is not None and not isinstance(v, str):
            return 'GUARD'
        try:
            r = cal.html_value(itype, v)
        except ValueError:
            return 'GUARD'          # beyond the interpreter's int() digit limit (known finding)
        return tuple(r) if r is not None else None
    mn, mx, v = val('min'), val('max'), val('value')
    if 'GUARD' in (mn, mx, v):
        return None
    for x in (mn, mx, v):
        if itype == 'week' and x is not None and len(x) == 2 and x[1] == 53 and 1 <= cal.p_dec31(int(x[0])) <= 3:
            return None
    if mn is None and mx is None:
        return False
    out = False
    if v is not None:
        if itype == 'time' and mn is not None and mx is not None and mn > mx:
            out = mx < v < mn
        else:
            out = (mn is not None and v < mn) or (mx is not None and v > mx)
    return (not out) if cond & ct.SEL_IN_RANGE else out


# ---------------------------------------------------------------------------------------------- :default / :indeterminate / :dir (C17)

def parent_no_iframe(m, el):
    p = el.parent
    if p is not None and is_iframe_el(m, p):
        return None
    return p


def form_of(m, el):
    p = parent_no_iframe(m, el)
    while p is not None:
        if tag_name(m, p) == 'form' and is_html_el(m, p):
            return p
        p = parent_no_iframe(m, p)
    return None


def sem_default(m, el):
    """Beyond :checked - exactly the first button/input of type submit among the descendants of its form (same document)."""
    form = form_of(m, el)
    if form is None:
        return False
    for c in tag_desc(m, form, True):
        n = tag_name(m, c)
        if n == 'form':
            break
        if n in ('input', 'button'):
            v = attr_by_name(m, c, 'type', '')
            if v and isinstance(v, str) and lower(v) == 'submit':
                return c is el
    return False


def group_scope(m, el):
    """The form owning el, else the top node of its document."""
    p = parent_no_iframe(m, el)
    last = None
    while True:
        if p is None:
            return last
        if tag_name(m, p) == 'form' and is_html_el(m, p):
            return p
        last = p
        p = parent_no_iframe(m, p)


def sem_indeterminate(m, el):
    """An unchecked radio button whose same-named group in its form (or document) has no checked member."""
    name_ = attr_by_name(m, el, 'name')
    scope = group_scope(m, el)
    if scope is None:
        return False
    for c in tag_desc(m, scope, True):
        if c is el:
            continue
        if tag_name(m, c) == 'input':
            is_radio = check = has_name = False
            for k, v in c.attrs.items():
                v = norm_value(v)
                if lower(k) == 'type' and isinstance(v, str) and lower(v) == 'radio':
                    is_radio = True
                elif lower(k) == 'name' and v == name_:
                    has_name = True
                elif lower(k) == 'checked':
                    check = True
                if is_radio and check and has_name and group_scope(m, c) is scope:
                    return False
    return True


def find_bidi(m, el):
    for node in el.contents:
        if isinstance(node, bs4.Tag):
            d = attr_by_name(m, node, 'dir', '')
            direction = {'ltr': 'ltr', 'rtl': 'rtl', 'auto': 'auto'}.get(lower(d) if isinstance(d, str) else None)
            n = tag_name(m, node)
            if n in ('bdi', 'script', 'style', 'textarea', 'iframe') or not is_html_el(m, node) or direction is not None:
                continue
            v = find_bidi(m, node)
            if v is not None:
                return v
            continue
        if is_special(node):
            continue
        for c in node:
            b = unicodedata.bidirectional(c)
            if b in ('AL', 'R', 'L'):
                return 'ltr' if b == 'L' else 'rtl'
    return None


def direction_of(m, el):
    """HTML 'directionality' of an element: 'ltr' | 'rtl' (None when el is not an HTML element)."""
    if el is None or not is_html_el(m, el):
        return None
    d = attr_by_name(m, el, 'dir', '')
    d = {'ltr': 'ltr', 'rtl': 'rtl', 'auto': 'auto'}.get(lower(d) if isinstance(d, str) else None)
    if d in ('ltr', 'rtl'):
        return d
    root = (m.root is not None and m.root is el) or (el.parent is not None and m.is_html and is_iframe_el(m, el.parent))
    if root and d is None:
        return 'ltr'
    n = tag_name(m, el)
    itype = ''
    if n == 'input':
        t = attr_by_name(m, el, 'type', '')
        itype = lower(t) if isinstance(t, str) else ''
    if n == 'input' and itype == 'tel' and d is None:
        return 'ltr'
    if ((n == 'input' and itype in ('text', 'search', 'tel', 'url', 'email')) or n == 'textarea') and d == 'auto':
        if n == 'textarea':
            value = ''.join(str(x) for x in kids(m, el, True) if is_content(x))
        else:
            value = attr_by_name(m, el, 'value', '')
        if value:
            for c in value:
                b = unicodedata.bidirectional(c)
                if b in ('AL', 'R', 'L'):
                    return 'ltr' if b == 'L' else 'rtl'
            return 'ltr'
        if root:
            return 'ltr'
        return direction_of(m, parent_no_iframe(m, el))
    if (n == 'bdi' and d is None) or d == 'auto':
        v = find_bidi(m, el)
        if v is not None:
            return v
        if root:
            return 'ltr'
        return direction_of(m, parent_no_iframe(m, el))
    return direction_of(m, parent_no_iframe(m, el))


def sem_dir(m, el, d):
    if d & ct.SEL_DIR_LTR and d & ct.SEL_DIR_RTL:
        return False
    got = direction_of(m, el)
    if got is None:
        return False
    return got == ('ltr' if d & ct.SEL_DIR_LTR else 'rtl')


def nth_sibs(m, el, last):
    parent = el.parent
    sibs = [c for c in parent.contents if isinstance(c, bs4.Tag)] if parent is not None else [el]
    return sibs[::-1] if last else sibs


def kids_spec(m, el, start, reverse, tags, no_iframe):
    if el is None or (no_iframe and is_iframe_el(m, el)):
        return []
    c = list(el.contents)
    last = len(c) - 1
    idx_ = (last if reverse else 0) if start is None else start
    if not (0 <= idx_ <= last):
        return []
    seq = c[idx_::-1] if reverse else c[idx_:]
    return [x for x in seq if not tags or isinstance(x, bs4.Tag)]


def desc_spec(m, el, tags, no_iframe):
    return [c for c in descendants(m, el, no_iframe) if not tags or isinstance(c, bs4.Tag)]
