"""IR vocabulary: flag constants are read from the real css_types module (they are an encoding detail of the IR)."""
from __future__ import annotations
import soupsieve  # noqa: F401
from soupsieve import css_types as ct
from pyvc.dsl import prim

SEL_EMPTY = ct.SEL_EMPTY
SEL_ROOT = ct.SEL_ROOT
SEL_DEFAULT = ct.SEL_DEFAULT
SEL_INDETERMINATE = ct.SEL_INDETERMINATE
SEL_SCOPE = ct.SEL_SCOPE
SEL_DIR_LTR = ct.SEL_DIR_LTR
SEL_DIR_RTL = ct.SEL_DIR_RTL
SEL_IN_RANGE = ct.SEL_IN_RANGE
SEL_OUT_OF_RANGE = ct.SEL_OUT_OF_RANGE
SEL_DEFINED = ct.SEL_DEFINED
SEL_PLACEHOLDER_SHOWN = ct.SEL_PLACEHOLDER_SHOWN
DIR_FLAGS = SEL_DIR_LTR | SEL_DIR_RTL
RANGES = SEL_IN_RANGE | SEL_OUT_OF_RANGE


@prim
def sel_is_null(s):
    return isinstance(s, ct.SelectorNull)
