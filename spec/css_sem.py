"""Meaning of the selector IR over a tree (C01, C03, C04, C05, C11, C12): written from Selectors level 3/4 and the
property statements, not from the matcher.  Dual use: translated to SMT by pyvc, executed by CPython over real
bs4 / soupsieve objects for replay and for the bounded tier.

`m` is the matcher's immutable context (document kind, root, scope); `ns` is the prefix map in force and `ifr`
says whether relations may cross an iframe boundary (both are switched inside the pre-compiled HTML-only lists).
"""
from __future__ import annotations
from pyvc.dsl import abstract, named
from pyvc.types import INT, BOOL, STR, TOpt, TSeq
from pyvc.tree import (SEQ_ATTR as SeqAttr, ATTR_PAIR as AttrPair, PAT as Pat, ATTRVAL as AttrVal, OPT_ATTRVAL as OptAttrVal, SEQ_RAW as SeqRaw, NODE as Node, SEQ_NODE as SeqNode, CSSMATCH as M, NSMAP as NsMap, SELLIST as SelList, SEL as Sel,
                       SELTAG as SelTag, SELATTR as SelAttr, SELNTH as SelNth, SELCONTAINS as SelContains, SELLANG as SelLang,
                       FLAGS as Flags)
from spec.vocab_tree import (parent, contents, idx, depth, is_tag, is_doc, is_navstr, is_comment, is_cdata, is_pi, is_decl,
                             is_doctype, text, name, prefix, namespace, is_xml_flag, next_sibling, previous_sibling, same,
                             ascii_lower, height, bidi_class, descendants, dsize, dindex, next_element, ls_starts, ls_end, unesc_plain, unesc_string, rv_starts, rv_split, rv_value, ns_get, html_ns_map, fake_parent, rattrs, norm, as_str, is_str_val, ws_tokens, is_list_val, as_list, attr_ns, attr_local, pat_match, join_sp, has_non_ws, strip_nonempty, wild_strip, py_lower, split_dash, join_empty, NS_XHTML, NS_XML)
from spec.vocab_ir import (sel_is_null, SEL_EMPTY, SEL_ROOT, SEL_DEFAULT, SEL_INDETERMINATE, SEL_SCOPE, SEL_DIR_LTR, SEL_DIR_RTL,
                           SEL_IN_RANGE, SEL_OUT_OF_RANGE, SEL_DEFINED, SEL_PLACEHOLDER_SHOWN, DIR_FLAGS, RANGES)

OptStr = TOpt(STR)
OptSelTag = TOpt(SelTag)
SeqSelList = TSeq(SelList)
SeqSelNth = TSeq(SelNth)
SeqStr = TSeq(STR)
SeqSel = TSeq(Sel)
from pyvc.types import TTup as _TTup   # noqa: E402
FormCache = TSeq(_TTup(Node, Node))
LangCache = TSeq(_TTup(Node, TOpt(STR)))
IndetCache = TSeq(_TTup(Node, OptAttrVal, BOOL))
SeqInt = TSeq(INT)
SeqSelAttr = TSeq(SelAttr)
SeqSelLang = TSeq(SelLang)
SeqSelContains = TSeq(SelContains)
OptInt = TOpt(INT)
OptFlags = TOpt(Flags)


# ---------------------------------------------------------------------------------------------- node kinds

def is_element(n: Node) -> bool:
    """An element: a Tag that is not the BeautifulSoup document object."""
    return n is not None and is_tag(n) and not is_doc(n)


def is_special(n: Node) -> bool:
    return is_comment(n) or is_decl(n) or is_cdata(n) or is_pi(n) or is_doctype(n)


def is_content(n: Node) -> bool:
    """Character data that counts as text: not a comment, CDATA, PI, declaration or doctype."""
    return is_navstr(n) and not is_special(n)


# ---------------------------------------------------------------------------------------------- document kind, names

def supports_ns(m: M) -> bool:
    return m.is_xml or m.has_html_namespace


def tag_ns(m: M, el: Node) -> str:
    """Namespace URI an element is considered to be in ('' for none)."""
    if el is None:
        return ''
    if supports_ns(m):
        u = namespace(el)
        return u if (u is not None and u != '') else ''
    return NS_XHTML


def is_html_el(m: M, el: Node) -> bool:
    return tag_ns(m, el) == NS_XHTML


def tag_name(m: M, el: Node) -> str:
    """Element name as compared by selectors: ASCII case-folded unless the document is XML."""
    return name(el) if m.is_xml else ascii_lower(name(el))


def is_iframe_el(m: M, el: Node) -> bool:
    if el is None:
        return False
    return (name(el) if is_xml_flag(el) else ascii_lower(name(el))) == 'iframe' and is_html_el(m, el)


def parent_of(m: M, el: Node, no_iframe: bool) -> Node:
    """Parent node; with no_iframe, an iframe element is not a parent (its content is another document)."""
    if el is None:
        return None
    p = parent(el)
    if no_iframe and p is not None and is_iframe_el(m, p):
        return None
    return p


def prev_tag_from(n: Node) -> Node:
    """n itself if it is a Tag, else the nearest preceding sibling that is one."""
    if n is None:
        return None
    if is_tag(n):
        return n
    return prev_tag_from(previous_sibling(n))


def next_tag_from(n: Node) -> Node:
    if n is None:
        return None
    if is_tag(n):
        return n
    return next_tag_from(next_sibling(n))


def prev_elem(el: Node) -> Node:
    return prev_tag_from(previous_sibling(el))


def next_elem(el: Node) -> Node:
    return next_tag_from(next_sibling(el))


# ---------------------------------------------------------------------------------------------- type selectors

def sem_namespace(m: M, ns: NsMap, el: Node, tag: SelTag) -> bool:
    """ns|E, *|E, |E, E (C12)."""
    uri = tag_ns(m, el)
    if tag.prefix is None:
        d = ns_get(ns, '')
        return d is None or uri == d          # bare E: any namespace unless a default namespace is declared
    if tag.prefix == '':
        return uri == ''                      # |E: no namespace
    if tag.prefix == '*':
        return True                           # *|E
    w = ns_get(ns, tag.prefix)
    return w is not None and uri == w         # ns|E: mapped and equal; an unmapped prefix matches nothing


def sem_tagname(m: M, el: Node, tag: SelTag) -> bool:
    if tag.name is None:
        return True
    want = tag.name if m.is_xml else ascii_lower(tag.name)
    return want == '*' or want == tag_name(m, el)


def sem_tag(m: M, ns: NsMap, el: Node, tag: OptSelTag) -> bool:
    if tag is None:
        return True
    return sem_namespace(m, ns, el, tag) and sem_tagname(m, el, tag)


# ---------------------------------------------------------------------------------------------- sub-matchers whose
# meaning is specified elsewhere (or, where marked, only bounded): the hub contract is modular in them

from spec import css_ref as _ref   # noqa: E402  executable bodies of the SMT-abstract sub-specs


# ---- An+B (C02): position among the qualifying element siblings, closed form of  exists n >= 0 . a*n + b == pos

def anb(a: int, b: int, var: bool, q: int) -> bool:
    """a*n + b reaches q for some integer n >= 0 (var), or a == q for the keyword / plain-integer forms (not var)."""
    if not var:
        return a == q
    if a == 0:
        return b == q
    return (q - b) % a == 0 and (q - b) // a >= 0


def same_type(m: M, el: Node, c: Node) -> bool:
    """Same element type: same (case-folded) name and same namespace."""
    return tag_name(m, c) == tag_name(m, el) and tag_ns(m, c) == tag_ns(m, el)


def qualifies(m: M, ns: NsMap, ifr: bool, el: Node, n: SelNth, c: Node) -> bool:
    """Sibling c counts towards el's index under n: it matches `of S` (if given) and, for -of-type, has el's type."""
    return ((len(n.selectors.selectors) == 0 or sem_list(m, ns, ifr, c, n.selectors)) and
            (not n.of_type or same_type(m, el, c)))


def cnt_from(m: M, ns: NsMap, ifr: bool, el: Node, n: SelNth, sibs: SeqNode, i: int) -> int:
    """Number of qualifying elements among sibs[i:], up to and including el."""
    if i < 0 or i >= len(sibs):
        return 0
    if qualifies(m, ns, ifr, el, n, sibs[i]):
        if same(sibs[i], el):
            return 1
        return 1 + cnt_from(m, ns, ifr, el, n, sibs, i + 1)
    return cnt_from(m, ns, ifr, el, n, sibs, i + 1)


def nth_parent(m: M, el: Node) -> Node:
    """The node whose children are el's siblings: its parent, or a stand-in holding only el for a detached element."""
    p = parent(el)
    return p if p is not None else fake_parent(el)


def nth_sibs(m: M, el: Node, last: bool) -> SeqNode:
    """The element siblings of el including el, in document order (reversed for the -last- forms); [el] for a detached element."""
    return kids_spec(m, nth_parent(m, el), None, last, True, False)


def nth_one(m: M, ns: NsMap, ifr: bool, el: Node, n: SelNth) -> bool:
    return ((len(n.selectors.selectors) == 0 or sem_list(m, ns, ifr, el, n.selectors)) and
            anb(n.a, n.b, n.n, cnt_from(m, ns, ifr, el, n, nth_sibs(m, el, n.last), 0)))


def all_nth(m: M, ns: NsMap, ifr: bool, el: Node, nth: SeqSelNth, i: int) -> bool:
    if i < 0 or i >= len(nth):
        return True
    return nth_one(m, ns, ifr, el, nth[i]) and all_nth(m, ns, ifr, el, nth, i + 1)


def sem_nth(m: M, ns: NsMap, ifr: bool, el: Node, nth: SeqSelNth) -> bool:
    return all_nth(m, ns, ifr, el, nth, 0)


def tag_desc(m: M, el: Node, no_iframe: bool) -> SeqNode:
    """Tag descendants of el in document order (not descending into iframes when no_iframe)."""
    return desc_spec(m, el, True, no_iframe)


# ---------------------------------------------------------------------------------------------- lists, compounds

def sem_list(m: M, ns: NsMap, ifr: bool, el: Node, L: SelList) -> bool:
    """A selector list holds at el when some alternative does (negated for :not()).  The pre-compiled HTML-only
    lists are evaluated with `html` bound to the XHTML namespace, inside the element's own document, and hold
    only in HTML documents."""
    if len(L.selectors) == 0:
        return False
    if L.is_html:
        if not m.is_html:
            return False
        return L.is_not != any_from(m, html_ns_map(), True, el, L.selectors, 0)
    return L.is_not != any_from(m, ns, ifr, el, L.selectors, 0)


def any_from(m: M, ns: NsMap, ifr: bool, el: Node, sels: SeqSel, i: int) -> bool:
    """Some alternative sels[j], j >= i, holds at el."""
    if i < 0 or i >= len(sels):
        return False
    return sem_sel(m, ns, ifr, el, sels[i]) or any_from(m, ns, ifr, el, sels, i + 1)


def sem_sel(m: M, ns: NsMap, ifr: bool, el: Node, s: Sel) -> bool:
    """A compound selector (with its leading relation) is the conjunction of its parts."""
    if sel_is_null(s):
        return False
    return (sem_tag(m, ns, el, s.tag)
            and ((s.flags & SEL_DEFINED) == 0 or sem_defined(m, el))
            and ((s.flags & SEL_ROOT) == 0 or sem_root(m, el))
            and ((s.flags & SEL_SCOPE) == 0 or same(m.scope, el))
            and ((s.flags & SEL_PLACEHOLDER_SHOWN) == 0 or sem_placeholder(m, el))
            and sem_nth(m, ns, ifr, el, s.nth)
            and ((s.flags & SEL_EMPTY) == 0 or sem_empty(m, el))
            and (len(s.ids) == 0 or sem_ids(m, el, s.ids))
            and (len(s.classes) == 0 or sem_classes(m, el, s.classes))
            and sem_attrs(m, ns, el, s.attributes)
            and ((s.flags & RANGES) == 0 or sem_range(m, el, s.flags & RANGES))
            and (len(s.lang) == 0 or sem_lang(m, el, s.lang))
            and all_subs(m, ns, ifr, el, s.selectors, 0)
            and (len(s.relation.selectors) == 0 or sem_rel(m, ns, ifr, el, s.relation))
            and ((s.flags & SEL_DEFAULT) == 0 or sem_default(m, el))
            and ((s.flags & SEL_INDETERMINATE) == 0 or sem_indeterminate(m, el))
            and ((s.flags & DIR_FLAGS) == 0 or sem_dir(m, el, s.flags & DIR_FLAGS))
            and (len(s.contains) == 0 or sem_contains(m, el, s.contains)))


def all_subs(m: M, ns: NsMap, ifr: bool, el: Node, subs: SeqSelList, i: int) -> bool:
    """Every sub-selector list (:is(), :not(), :has(), HTML definitions ...) from index i on holds at el."""
    if i < 0 or i >= len(subs):
        return True
    return sem_list(m, ns, ifr, el, subs[i]) and all_subs(m, ns, ifr, el, subs, i + 1)


# ---------------------------------------------------------------------------------------------- combinators

def anc_sem(m: M, ns: NsMap, ifr: bool, n: Node, R: SelList) -> bool:
    """n or one of its ancestors is an element at which R holds (only elements are ancestors)."""
    if not is_element(n):
        return False
    return sem_list(m, ns, ifr, n, R) or anc_sem(m, ns, ifr, parent_of(m, n, ifr), R)


def prev_sem(m: M, ns: NsMap, ifr: bool, n: Node, R: SelList) -> bool:
    """n (an element or None) or one of its preceding element siblings satisfies R."""
    if n is None:
        return False
    return sem_list(m, ns, ifr, n, R) or prev_sem(m, ns, ifr, prev_elem(n), R)


def next_sem(m: M, ns: NsMap, ifr: bool, n: Node, R: SelList) -> bool:
    if n is None:
        return False
    return sem_list(m, ns, ifr, n, R) or next_sem(m, ns, ifr, next_elem(n), R)


def seq_any(m: M, ns: NsMap, ifr: bool, seq: SeqNode, R: SelList, i: int) -> bool:
    """Some node seq[j], j >= i, satisfies R."""
    if i < 0 or i >= len(seq):
        return False
    return sem_list(m, ns, ifr, seq[i], R) or seq_any(m, ns, ifr, seq, R, i + 1)


def sem_rel(m: M, ns: NsMap, ifr: bool, el: Node, R: SelList) -> bool:
    """The relation list R (one compound carrying rel_type) holds for el.
    ' ' some element ancestor, '>' the parent element, '~' some preceding element sibling, '+' the preceding one;
    ': ' ':>' ':~' ':+' are the forward-looking forms used by :has()."""
    if len(R.selectors) == 0:
        return False
    r = R.selectors[0]
    if sel_is_null(r) or r.rel_type is None:
        return False
    t = r.rel_type
    if t == ' ':
        return anc_sem(m, ns, ifr, parent_of(m, el, ifr), R)
    if t == '>':
        p = parent_of(m, el, ifr)
        return is_element(p) and sem_list(m, ns, ifr, p, R)
    if t == '~':
        return prev_sem(m, ns, ifr, prev_elem(el), R)
    if t == '+':
        s = prev_elem(el)
        return s is not None and sem_list(m, ns, ifr, s, R)
    if t == ': ':
        return seq_any(m, ns, ifr, tag_desc(m, el, ifr), R, 0)
    if t == ':>':
        return seq_any(m, ns, ifr, tag_children(m, el, ifr), R, 0)
    if t == ':~':
        return next_sem(m, ns, ifr, next_elem(el), R)
    if t == ':+':
        s = next_elem(el)
        return s is not None and sem_list(m, ns, ifr, s, R)
    return False


# ---------------------------------------------------------------------------------------------- entry points (C03)

def matches(m: M, ns: NsMap, ifr: bool, el: Node) -> bool:
    """The match relation every entry point is a view of."""
    return is_element(el) and sem_list(m, ns, ifr, el, m.selectors)


def is_root_el(m: M, el: Node) -> bool:
    """The matcher's notion of 'top element of its document': the pre-computed root, or (HTML) a child of an iframe."""
    if m.root is not None and same(m.root, el):
        return True
    p = parent(el)
    return p is not None and m.is_html and is_iframe_el(m, p)


def sel_from(m: M, ns: NsMap, ifr: bool, seq: SeqNode, i: int, lim: OptInt) -> SeqNode:
    """select(): the matching nodes of seq from position i on, in order, at most lim of them when lim is given."""
    if i < 0 or i >= len(seq):
        return []
    if matches(m, ns, ifr, seq[i]):
        if lim is not None and lim - 1 < 1:
            return [seq[i]]
        return [seq[i]] + sel_from(m, ns, ifr, seq, i + 1, None if lim is None else lim - 1)
    return sel_from(m, ns, ifr, seq, i + 1, lim)


def closest_from(m: M, ns: NsMap, ifr: bool, n: Node) -> Node:
    """closest(): n or its nearest ancestor that matches (never the document object: it is not an element)."""
    if n is None:
        return None
    if matches(m, ns, ifr, n):
        return n
    return closest_from(m, ns, ifr, parent(n))


def filt_from(m: M, ns: NsMap, ifr: bool, seq: SeqNode, i: int) -> SeqNode:
    """filter(): the matching elements among seq[i:], in order."""
    if i < 0 or i >= len(seq):
        return []
    if is_tag(seq[i]) and matches(m, ns, ifr, seq[i]):
        return [seq[i]] + filt_from(m, ns, ifr, seq, i + 1)
    return filt_from(m, ns, ifr, seq, i + 1)


def own_contents(m: M, el: Node, no_iframe: bool) -> SeqNode:
    """get_contents(): the children, none when el is missing or (with no_iframe) an iframe."""
    if el is None:
        return []
    if no_iframe and is_iframe_el(m, el):
        return []
    return contents(el)


def rel_ok(t: str) -> bool:
    return (t == ' ' or t == '>' or t == '~' or t == '+' or t == ': ' or t == ':>' or t == ':~' or t == ':+')


def ir_wf_list(L: SelList) -> bool:
    """Reachable-IR well-formedness (DESIGN 4.4): the shape the parser produces.  Matcher contracts quantify over
    well-formed IR only; the parser side establishes it (bounded: every IR of the corpus and the pre-compiled lists)."""
    return wf_from(L, 0)


def wf_from(L: SelList, i: int) -> bool:
    if i < 0 or i >= len(L.selectors):
        return True
    return ir_wf_sel(L.selectors[i]) and wf_from(L, i + 1)


def wf_subs(subs: SeqSelList, i: int) -> bool:
    if i < 0 or i >= len(subs):
        return True
    return ir_wf_list(subs[i]) and wf_subs(subs, i + 1)


def wf_nths(nth: SeqSelNth, i: int) -> bool:
    if i < 0 or i >= len(nth):
        return True
    return ir_wf_list(nth[i].selectors) and wf_nths(nth, i + 1)


def ir_wf_sel(s: Sel) -> bool:
    """A compound's relation list has at most one element, which carries one of the eight relation strings;
    all nested lists are well-formed."""
    if sel_is_null(s):
        return True
    return (len(s.relation.selectors) <= 1 and
            (len(s.relation.selectors) == 0 or sel_is_null(s.relation.selectors[0]) or
             (s.relation.selectors[0].rel_type is not None and rel_ok(s.relation.selectors[0].rel_type))) and
            ir_wf_list(s.relation) and wf_subs(s.selectors, 0) and wf_nths(s.nth, 0))


# ---------------------------------------------------------------------------------------------- matcher set-up (C03, C11)

def top_of(n: Node) -> Node:
    """The node without a parent above n."""
    if n is None:
        return None
    if parent(n) is None:
        return n
    return top_of(parent(n))


def first_or_none(seq: SeqNode) -> Node:
    return None if len(seq) == 0 else seq[0]


def unesc(content: str, string: bool) -> str:
    """css-syntax 4.3.7 escape decoding of a whole string: the escapes of the identifier grammar, or of the string grammar when the text
    comes from inside quotes (each escape is replaced by the value css_unescape.replace is proved to return for it)."""
    return unesc_string(content) if string else unesc_plain(content)


# ---------------------------------------------------------------------------------------------- attributes (C01.O5, C11.O3, C18)

def raw_index(seq: SeqRaw, key: str, i: int) -> int:
    """Index of the first pair from position i on whose key equals `key` exactly (XML trees), -1 when there is none."""
    if i < 0 or i >= len(seq):
        return -1
    if seq[i][0] == key:
        return i
    return raw_index(seq, key, i + 1)


def raw_index_ci(seq: SeqRaw, key: str, i: int) -> int:
    """... whose key equals `key` after ASCII lower-casing (HTML trees)."""
    if i < 0 or i >= len(seq):
        return -1
    if ascii_lower(seq[i][0]) == key:
        return i
    return raw_index_ci(seq, key, i + 1)


def attr_by_name(el: Node, key: str, default: OptAttrVal) -> OptAttrVal:
    """Normalised value of the attribute called `key` (exact name in XML trees, ASCII case-insensitive otherwise), else default."""
    if is_xml_flag(el):
        i = raw_index(rattrs(el), key, 0)
        return default if i < 0 else norm(rattrs(el)[i][1])
    j = raw_index_ci(rattrs(el), key, 0)
    return default if j < 0 else norm(rattrs(el)[j][1])


# ---------------------------------------------------------------------------------------------- :in-range / :out-of-range (C18.O4)
from spec.calendar import html_value, week53_lenient, OptNumTup   # noqa: E402


def out_of_range(kind: str, mn: OptNumTup, mx: OptNumTup, v: OptNumTup) -> bool:
    """HTML: a value suffers from underflow/overflow; for time with min > max the range wraps around midnight.
    A missing or invalid value is never out of range."""
    if v is None or (mn is None and mx is None):
        return False
    if kind == 'time' and mn is not None and mx is not None and mn > mx:
        return mx < v and v < mn
    return (mn is not None and v < mn) or (mx is not None and v > mx)


def range_type(el: Node) -> str:
    return ascii_lower(as_str(attr_by_name(el, 'type', '')))


def sem_range(m: M, el: Node, cond: Flags) -> bool:
    """:in-range / :out-of-range for an input with a valid min or max: out of range iff the (valid) value is; else neither."""
    k = range_type(el)
    mn = html_value(k, as_str(attr_by_name(el, 'min', None)))
    mx = html_value(k, as_str(attr_by_name(el, 'max', None)))
    v = html_value(k, as_str(attr_by_name(el, 'value', None)))
    if mn is None and mx is None:
        return False
    out = out_of_range(k, mn, mx, v)
    return (not out) if (cond & SEL_IN_RANGE) != 0 else out


def range_attrs_are_strings(el: Node) -> bool:
    """attrs_shape_ok for the attributes match_range reads: parsers store strings for type/min/max/value."""
    return (is_str_val(attr_by_name(el, 'type', '')) and is_str_val(attr_by_name(el, 'min', None)) and
            is_str_val(attr_by_name(el, 'max', None)) and is_str_val(attr_by_name(el, 'value', None)))


def week53_region(el: Node) -> bool:
    """Known finding C18-week53-lenient seen from match_range."""
    return range_type(el) == 'week' and (lenient_attr(attr_by_name(el, 'min', None)) or lenient_attr(attr_by_name(el, 'max', None)) or
                                         lenient_attr(attr_by_name(el, 'value', None)))


def lenient_attr(v: OptAttrVal) -> bool:
    return v is not None and is_str_val(v) and week53_lenient(as_str(v))


# ---------------------------------------------------------------------------------------------- #id and .class (C01.O4)

def all_ids(el: Node, ids: SeqStr, i: int) -> bool:
    """Every listed id equals the element's id attribute value ('' when absent)."""
    if i < 0 or i >= len(ids):
        return True
    return attr_by_name(el, 'id', '') == ids[i] and all_ids(el, ids, i + 1)


def sem_ids(m: M, el: Node, ids: SeqStr) -> bool:
    return all_ids(el, ids, 0)


def class_list(el: Node) -> SeqStr:
    """The element's classes: the whitespace-separated tokens of a string value, or the items of a list value."""
    v = attr_by_name(el, 'class', [])
    if is_list_val(v):
        return as_list(v)
    return ws_tokens(as_str(v))


def all_classes(cur: SeqStr, classes: SeqStr, i: int) -> bool:
    if i < 0 or i >= len(classes):
        return True
    return classes[i] in cur and all_classes(cur, classes, i + 1)


def sem_classes(m: M, el: Node, classes: SeqStr) -> bool:
    return all_classes(class_list(el), classes, 0)


# ---------------------------------------------------------------------------------------------- attribute selectors (C01.O5, C11.O3, C12.O3)

def npairs_from(seq: SeqRaw, i: int) -> SeqAttr:
    """(key, normalised value) for the raw attribute pairs from position i on (what iter_attributes yields)."""
    if i < 0 or i >= len(seq):
        return []
    return [(seq[i][0], norm(seq[i][1]))] + npairs_from(seq, i + 1)


def npairs(el: Node) -> SeqAttr:
    if el is None:
        return []
    return npairs_from(rattrs(el), 0)


def eq_name(m: M, a: str, b: str) -> bool:
    """Attribute names compare exactly in XML documents, ASCII case-insensitively otherwise (C11)."""
    return a == b if m.is_xml else ascii_lower(a) == ascii_lower(b)


def attr_hit(m: M, w: OptStr, el: Node, k: str, attr: str, prefix: OptStr) -> bool:
    """Key k of el is the attribute [prefix|attr] asks for; w is the URI the prefix is mapped to (None: no prefix or '*').
    [*|a]: a in any namespace or none (local name);  [a] / [|a]: the attribute named a without namespace processing;
    [ns|a]: a in exactly the mapped namespace."""
    if prefix is not None and prefix == '*':
        if attr_ns(el, k) is not None and attr_local(el, k) is not None:
            return eq_name(m, attr, attr_local(el, k))
        return eq_name(m, attr, k)
    if w is None:
        return eq_name(m, attr, k)
    return (attr_ns(el, k) is not None and attr_ns(el, k) == w and attr_local(el, k) is not None and
            eq_name(m, attr, attr_local(el, k)))


def find_attr(m: M, w: OptStr, el: Node, attr: str, prefix: OptStr, seq: SeqAttr, i: int) -> OptAttrVal:
    """Value of the first attribute from position i on that [prefix|attr] asks for."""
    if i < 0 or i >= len(seq):
        return None
    if attr_hit(m, w, el, seq[i][0], attr, prefix):
        return seq[i][1]
    return find_attr(m, w, el, attr, prefix, seq, i + 1)


def find_ci(seq: SeqAttr, attr: str, i: int) -> OptAttrVal:
    """Documents without namespace support: first attribute whose name equals attr ASCII case-insensitively."""
    if i < 0 or i >= len(seq):
        return None
    if ascii_lower(attr) == ascii_lower(seq[i][0]):
        return seq[i][1]
    return find_ci(seq, attr, i + 1)


def attr_lookup(m: M, ns: NsMap, el: Node, attr: str, prefix: OptStr) -> OptAttrVal:
    if not supports_ns(m):
        return find_ci(npairs(el), attr, 0)
    if prefix is not None and prefix != '':
        w = ns_get(ns, prefix)
        if w is None and prefix != '*':
            return None                      # an unmapped prefix matches nothing
        return find_attr(m, w, el, attr, prefix, npairs(el), 0)
    return find_attr(m, None, el, attr, prefix, npairs(el), 0)


def attr_text(v: OptAttrVal) -> str:
    """The value a pattern is matched against: the string, or the items of a list value joined by single spaces."""
    if is_list_val(v):
        return join_sp(as_list(v))
    return as_str(v)


def one_attr(m: M, ns: NsMap, el: Node, a: SelAttr) -> bool:
    v = attr_lookup(m, ns, el, a.attribute, a.prefix)
    if v is None:
        return False
    if m.is_xml and a.xml_type_pattern is not None:
        return pat_match(a.xml_type_pattern, attr_text(v))
    if a.pattern is None:
        return True
    return pat_match(a.pattern, attr_text(v))


def all_attrs(m: M, ns: NsMap, el: Node, attrs: SeqSelAttr, i: int) -> bool:
    if i < 0 or i >= len(attrs):
        return True
    return one_attr(m, ns, el, attrs[i]) and all_attrs(m, ns, el, attrs, i + 1)


def sem_attrs(m: M, ns: NsMap, el: Node, attrs: SeqSelAttr) -> bool:
    return all_attrs(m, ns, el, attrs, 0)


# ---------------------------------------------------------------------------------------------- :empty and :root (C01.O7, C19.O5)

def empty_from(seq: SeqNode, i: int) -> bool:
    """No node of seq[i:] is an element or a text node with a non-whitespace character (comments, CDATA, PIs ... do not count)."""
    if i < 0 or i >= len(seq):
        return True
    if is_tag(seq[i]):
        return False
    if is_content(seq[i]) and has_non_ws(text(seq[i])):
        return False
    return empty_from(seq, i + 1)


def sem_empty(m: M, el: Node) -> bool:
    return empty_from(kids_spec(m, el, None, False, False, False), 0)


def blocks_root(n: Node) -> bool:
    """A sibling that prevents an element from being the root: an element, non-whitespace text, or CDATA."""
    return is_tag(n) or (is_content(n) and strip_nonempty(text(n))) or is_cdata(n)


def clear_before(n: Node) -> bool:
    if n is None:
        return True
    return (not blocks_root(n)) and clear_before(previous_sibling(n))


def clear_after(n: Node) -> bool:
    if n is None:
        return True
    return (not blocks_root(n)) and clear_after(next_sibling(n))


def sem_root(m: M, el: Node) -> bool:
    """:root - the top element of its document (the pre-computed root, or in HTML a child of an iframe) with no other
    element, text or CDATA next to it.  (Guarded reading, DESIGN 4.1: multi-rooted soups are not DOM documents.)"""
    return is_root_el(m, el) and clear_before(previous_sibling(el)) and clear_after(next_sibling(el))


# ---------------------------------------------------------------------------------------------- RFC 4647 3.3.2 extended filtering (C13.O1)
# on subtag lists; the range has had its non-leading wildcards removed (they match any subtag sequence including none)

def first_ok(R: SeqStr, T: SeqStr) -> bool:
    """Step 2: the first subtags must match; '*' matches any non-empty first subtag."""
    return not ((R[0] != '*' and R[0] != T[0]) or (R[0] == '*' and len(T) == 1 and T[0] == ''))


def rest_ok(R: SeqStr, T: SeqStr, ri: int, ti: int) -> bool:
    """Step 3 (A-E) from range subtag ri / tag subtag ti on."""
    if ri >= len(R):
        return True                       # the range is exhausted: match
    if ti < 0 or ti >= len(T):
        return False                      # B: ran out of tag subtags
    if R[ri] == '':
        return False                      # an empty subtag never matches
    if T[ti] == R[ri]:
        return rest_ok(R, T, ri + 1, ti + 1)   # C
    if len(T[ti]) == 1:
        return False                      # D: an implicit wildcard does not skip a singleton
    return rest_ok(R, T, ri, ti + 1)      # E


def elf(R: SeqStr, T: SeqStr) -> bool:
    """(The empty range has the single subtag '' and therefore matches exactly the tags whose first and only subtag is '':
    an explicitly empty language.)"""
    return first_ok(R, T) and rest_ok(R, T, 1, 1)


def lang_filter(rng: str, tag: str) -> bool:
    return elf(split_dash(py_lower(wild_strip(rng))), split_dash(py_lower(tag)))


# ---------------------------------------------------------------------------------------------- :-soup-contains (C19.O2, O3)

def any_hay(needle: str, hays: SeqStr, i: int) -> bool:
    """needle occurs within a single one of hays[i:]."""
    if i < 0 or i >= len(hays):
        return False
    return needle in hays[i] or any_hay(needle, hays, i + 1)


def any_needle_own(needles: SeqStr, hays: SeqStr, i: int) -> bool:
    if i < 0 or i >= len(needles):
        return False
    return any_hay(needles[i], hays, 0) or any_needle_own(needles, hays, i + 1)


def any_needle(needles: SeqStr, hay: str, i: int) -> bool:
    if i < 0 or i >= len(needles):
        return False
    return needles[i] in hay or any_needle(needles, hay, i + 1)


def one_contains(m: M, el: Node, c: SelContains) -> bool:
    """Some listed text occurs in a single direct text child (own) / in the concatenated descendant text."""
    if c.own:
        return any_needle_own(c.text, own_texts(m, el, m.is_html), 0)
    return any_needle(c.text, text_of(m, el, m.is_html), 0)


def all_contains(m: M, el: Node, cs: SeqSelContains, i: int) -> bool:
    if i < 0 or i >= len(cs):
        return True
    return one_contains(m, el, cs[i]) and all_contains(m, el, cs, i + 1)


def sem_contains(m: M, el: Node, contains: SeqSelContains) -> bool:
    return all_contains(m, el, contains, 0)


# ---------------------------------------------------------------------------------------------- children / text (C02.O2, C19.O2)

def keep1(n: Node, tags: bool) -> SeqNode:
    return [n] if (not tags or is_tag(n)) else []


def kids_up(c: SeqNode, i: int, tags: bool) -> SeqNode:
    """c[i], c[i+1], ... (only Tags when asked)."""
    if i < 0 or i >= len(c):
        return []
    return keep1(c[i], tags) + kids_up(c, i + 1, tags)


def kids_down(c: SeqNode, i: int, tags: bool) -> SeqNode:
    """c[i], c[i-1], ..., c[0]."""
    if i < 0 or i >= len(c):
        return []
    return keep1(c[i], tags) + kids_down(c, i - 1, tags)


def kids_spec(m: M, el: Node, start: OptInt, reverse: bool, tags: bool, no_iframe: bool) -> SeqNode:
    """get_children(): contents of el from `start` (default: the first, or the last when reversed), forwards or backwards,
    only Tags when asked; nothing for a missing element or (no_iframe) an iframe."""
    if el is None or (no_iframe and is_iframe_el(m, el)):
        return []
    c = contents(el)
    first = (len(c) - 1 if reverse else 0) if start is None else start
    if first < 0 or first > len(c) - 1:
        return []
    return kids_down(c, first, tags) if reverse else kids_up(c, first, tags)


def tag_children(m: M, el: Node, no_iframe: bool) -> SeqNode:
    return kids_spec(m, el, None, False, True, no_iframe)


def texts_from(seq: SeqNode, i: int) -> SeqStr:
    """The content strings among seq[i:], each separately, in order."""
    if i < 0 or i >= len(seq):
        return []
    if is_content(seq[i]):
        return [text(seq[i])] + texts_from(seq, i + 1)
    return texts_from(seq, i + 1)


def own_texts(m: M, el: Node, no_iframe: bool) -> SeqStr:
    """The content strings that are direct children of el, each separately."""
    return texts_from(own_contents(m, el, no_iframe), 0)


@abstract
def desc_spec(m: M, el: Node, tags: bool, no_iframe: bool) -> SeqNode:
    """get_descendants(): pre-order descendants (only Tags when asked), not descending into iframes when no_iframe."""
    return _ref.desc_spec(m, el, tags, no_iframe)


def text_of(m: M, el: Node, no_iframe: bool) -> str:
    """Concatenation, in document order, of the content strings among the descendants of el."""
    return join_empty(texts_from(desc_spec(m, el, False, no_iframe), 0))


def sem_defined(m: M, el: Node) -> bool:
    """:defined (reading documented in the matcher): not a custom element name (no hyphen), or a qualified/prefixed name."""
    n = tag_name(m, el)
    return ('-' not in n) or (':' in n) or (prefix(el) is not None)


def sem_placeholder(m: M, el: Node) -> bool:
    """:placeholder-shown extra condition: no content (a single newline does not count)."""
    return text_of(m, el, False) == '' or text_of(m, el, False) == '\n'


# ---------------------------------------------------------------------------------------------- :default (C17.O4) and its memo table (C04.O3)

def is_form_el(m: M, n: Node) -> bool:
    return n is not None and tag_name(m, n) == 'form' and is_html_el(m, n)


def form_from(m: M, n: Node) -> Node:
    """n or its nearest ancestor (same document: not crossing an iframe) that is an HTML form element."""
    if n is None:
        return None
    if is_form_el(m, n):
        return n
    return form_from(m, parent_of(m, n, True))


def form_of(m: M, el: Node) -> Node:
    return form_from(m, parent_of(m, el, True))


def is_submit(m: M, c: Node) -> bool:
    """A button or input whose type is `submit` (ASCII case-insensitive)."""
    return ((tag_name(m, c) == 'input' or tag_name(m, c) == 'button') and
            is_str_val(attr_by_name(c, 'type', '')) and ascii_lower(as_str(attr_by_name(c, 'type', ''))) == 'submit')


def first_submit(m: M, seq: SeqNode, i: int) -> Node:
    """The first submit button among seq[i:], stopping at a nested form; None if there is none."""
    if i < 0 or i >= len(seq):
        return None
    if tag_name(m, seq[i]) == 'form':
        return None
    if is_submit(m, seq[i]):
        return seq[i]
    return first_submit(m, seq, i + 1)


def default_of(m: M, form: Node) -> Node:
    return first_submit(m, desc_spec(m, form, True, True), 0)


def sem_default(m: M, el: Node) -> bool:
    """Beyond :checked: el is the first submit button among the descendants of its form (in the same document)."""
    f = form_of(m, el)
    return f is not None and same(default_of(m, f), el)


def default_cache_ok(m: M, cache: FormCache, i: int) -> bool:
    """Every memoised (form, button) pair from position i on is right: the button is that form's default button."""
    if i < 0 or i >= len(cache):
        return True
    return (cache[i][0] is not None and cache[i][1] is not None and same(default_of(m, cache[i][0]), cache[i][1]) and
            default_cache_ok(m, cache, i + 1))




# ---------------------------------------------------------------------------------------------- :lang() (C13)

@named
def is_lang_key(m: M, el: Node, k: str) -> bool:
    """Attribute key k carries el's language: `lang` (ASCII case-insensitively unless the document is XML) where the document has no
    namespace support or el is in the XHTML namespace; the attribute `lang` of the XML namespace (xml:lang) everywhere else."""
    if not supports_ns(m) or (el is not None and namespace(el) == NS_XHTML):
        return (k if m.is_xml else ascii_lower(k)) == 'lang'
    loc = attr_local(el, k)
    return attr_ns(el, k) == NS_XML and loc is not None and (loc if m.is_xml else ascii_lower(loc)) == 'lang'


def own_lang(m: M, el: Node, seq: SeqAttr, i: int) -> OptStr:
    """Value of el's first language attribute from position i on (attribute order)."""
    if i < 0 or i >= len(seq):
        return None
    if is_lang_key(m, el, seq[i][0]):
        return as_str(seq[i][1])
    return own_lang(m, el, seq, i + 1)


def inh_lang(m: M, n: Node) -> OptStr:
    """The nearest language attribute on n or an ancestor within the same document (an iframe element is not a parent in HTML)."""
    if n is None:
        return None
    v = own_lang(m, n, npairs(n), 0)
    if v is not None:
        return v
    return inh_lang(m, parent_of(m, n, m.is_html))


def doc_top(m: M, n: Node) -> Node:
    """The topmost node of n's document."""
    if n is None:
        return None
    if parent_of(m, n, m.is_html) is None:
        return n
    return doc_top(m, parent_of(m, n, m.is_html))


def meta_applies(m: M, top: Node) -> bool:
    """C13: the content-language pragma is consulted in HTML and XHTML documents (every document the matcher treats as HTML), never in
    other XML."""
    return m.is_html


def first_named(m: M, seq: SeqNode, i: int, tag: str) -> Node:
    """The first HTML element called `tag` among seq[i:]."""
    if i < 0 or i >= len(seq):
        return None
    if tag_name(m, seq[i]) == tag and is_html_el(m, seq[i]):
        return seq[i]
    return first_named(m, seq, i + 1, tag)


def meta_scan(seq: SeqAttr, i: int, c_lang: bool, content: OptStr) -> OptStr:
    """One <meta>: its non-empty content when it also declares http-equiv=content-language (attributes read in order)."""
    if i < 0 or i >= len(seq):
        return None
    cl = c_lang or (ascii_lower(seq[i][0]) == 'http-equiv' and ascii_lower(as_str(seq[i][1])) == 'content-language')
    co = as_str(seq[i][1]) if ascii_lower(seq[i][0]) == 'content' else content
    if cl and co is not None and co != '':
        return co
    return meta_scan(seq, i + 1, cl, co)


def metas_from(m: M, head: Node, seq: SeqNode, i: int) -> OptStr:
    """The first content-language pragma among the meta children seq[i:] of head."""
    if i < 0 or i >= len(seq):
        return None
    if is_tag(seq[i]) and tag_name(m, seq[i]) == 'meta' and is_html_el(m, head):
        v = meta_scan(npairs(seq[i]), 0, False, None)
        if v is not None:
            return v
    return metas_from(m, head, seq, i + 1)


def html_of(m: M, top: Node) -> Node:
    """The html element of the document whose topmost node is top: top itself (a detached tree, the document inside an iframe), else
    the first html child of top (the BeautifulSoup object)."""
    if top is not None and tag_name(m, top) == 'html' and is_html_el(m, top):
        return top
    return first_named(m, tag_children(m, top, m.is_html), 0, 'html')


def head_of(m: M, top: Node) -> Node:
    return first_named(m, tag_children(m, html_of(m, top), m.is_html), 0, 'head')


@named
def meta_lang(m: M, top: Node) -> OptStr:
    """Content-Language pragma of the document whose topmost node is top: html > head > meta[http-equiv=content-language][content]."""
    if html_of(m, top) is None or head_of(m, top) is None:
        return None
    return metas_from(m, head_of(m, top), contents(head_of(m, top)), 0)


@named
def elem_lang(m: M, el: Node) -> OptStr:
    """C13: the nearest lang attribute, otherwise the content-language pragma, otherwise unknown (None)."""
    v = inh_lang(m, el)
    if v is not None:
        return v
    if not meta_applies(m, doc_top(m, el)):
        return None
    return meta_lang(m, doc_top(m, el))


def any_range(ranges: SeqStr, tag: str, i: int) -> bool:
    if i < 0 or i >= len(ranges):
        return False
    return lang_filter(ranges[i], tag) or any_range(ranges, tag, i + 1)


def all_langs(langs: SeqSelLang, tag: str, i: int) -> bool:
    """Every :lang() of the compound from position i on has a range matching tag."""
    if i < 0 or i >= len(langs):
        return True
    return any_range(langs[i].languages, tag, 0) and all_langs(langs, tag, i + 1)


def sem_lang(m: M, el: Node, langs: SeqSelLang) -> bool:
    v = elem_lang(m, el)
    return v is not None and len(langs) > 0 and all_langs(langs, v, 0)


def lang_cache_ok(m: M, cache: LangCache, i: int) -> bool:
    """Every memoised (top node, language) pair from position i on is right: the pragma applies to that document and the stored
    value is what its <meta> elements say."""
    if i < 0 or i >= len(cache):
        return True
    return (cache[i][0] is not None and meta_applies(m, cache[i][0]) and cache[i][1] == meta_lang(m, cache[i][0]) and
            lang_cache_ok(m, cache, i + 1))


# ---------------------------------------------------------------------------------------------- :indeterminate radio groups (C17)

def scope_up(m: M, p: Node) -> Node:
    """Owner of a radio group seen from ancestor p: the nearest HTML form element, else the topmost ancestor in the same document."""
    if p is None:
        return None
    if is_form_el(m, p):
        return p
    if parent_of(m, p, True) is None:
        return p
    return scope_up(m, parent_of(m, p, True))


def group_scope(m: M, el: Node) -> Node:
    return scope_up(m, parent_of(m, el, True))


def radio_scan(m: M, seq: SeqAttr, i: int, nm: OptAttrVal, is_radio: bool, check: bool, has_name: bool, same_form: bool) -> bool:
    """Reading the attributes from position i on (flags so far): the element is a checked radio button called nm of that form.
    Attribute names compare exactly in XML documents, ASCII case-insensitively otherwise (C11)."""
    if i < 0 or i >= len(seq):
        return False
    k = seq[i][0] if m.is_xml else ascii_lower(seq[i][0])
    r = is_radio or (k == 'type' and ascii_lower(as_str(seq[i][1])) == 'radio')
    n = has_name or (k == 'name' and seq[i][1] == nm)
    c = check or k == 'checked'
    if r and c and n and same_form:
        return True
    return radio_scan(m, seq, i + 1, nm, r, c, n, same_form)


@named
def checked_member(m: M, c: Node, nm: OptAttrVal, scope: Node) -> bool:
    """c is a checked radio button called nm in the group owned by scope."""
    return tag_name(m, c) == 'input' and radio_scan(m, npairs(c), 0, nm, False, False, False, same(group_scope(m, c), scope))


def group_checked(m: M, scope: Node, nm: OptAttrVal, seq: SeqNode, i: int, ex: Node) -> bool:
    """Some element other than ex among seq[i:] is a checked member of the group."""
    if i < 0 or i >= len(seq):
        return False
    if seq[i] is not None and not same(seq[i], ex) and checked_member(m, seq[i], nm, scope):
        return True
    return group_checked(m, scope, nm, seq, i + 1, ex)


def sem_indeterminate(m: M, el: Node) -> bool:
    """A named radio button is indeterminate when no radio button of its group (same name, same form owner) is checked."""
    f = group_scope(m, el)
    return f is not None and not group_checked(m, f, attr_by_name(el, 'name', None), desc_spec(m, f, True, True), 0, None)


def indet_cache_ok(m: M, cache: IndetCache, i: int) -> bool:
    """Every memoised (owner, name, verdict) triple from position i on is right, whichever element asked."""
    if i < 0 or i >= len(cache):
        return True
    return (cache[i][0] is not None and
            cache[i][2] == (not group_checked(m, cache[i][0], cache[i][1], desc_spec(m, cache[i][0], True, True), 0, None)) and
            indet_cache_ok(m, cache, i + 1))


# ---------------------------------------------------------------------------------------------- :dir() (C17): HTML directionality

def dir_value(v: str) -> OptFlags:
    """The dir attribute's keyword (already ASCII-lowered): ltr, rtl, auto (0), otherwise not in a defined state (None)."""
    if v == 'ltr':
        return SEL_DIR_LTR
    if v == 'rtl':
        return SEL_DIR_RTL
    if v == 'auto':
        return 0
    return None


def dir_attr(el: Node) -> OptFlags:
    return dir_value(ascii_lower(as_str(attr_by_name(el, 'dir', ''))))


def first_strong(s: str, i: int) -> OptFlags:
    """Direction of the first character of bidirectional class L, AL or R in s[i:]."""
    if i < 0 or i >= len(s):
        return None
    if bidi_class(s[i]) == 'L':
        return SEL_DIR_LTR
    if bidi_class(s[i]) == 'AL' or bidi_class(s[i]) == 'R':
        return SEL_DIR_RTL
    return first_strong(s, i + 1)


def all_kids(m: M, n: Node) -> SeqNode:
    """What get_children(n) yields with its defaults: every child node, in order."""
    return kids_spec(m, n, None, False, False, False)


def bidi_skip(m: M, n: Node) -> bool:
    """Children not consulted by dir=auto: bdi, script, style, textarea, iframe, foreign elements, elements with their own dir."""
    nm = tag_name(m, n)
    return (nm == 'bdi' or nm == 'script' or nm == 'style' or nm == 'textarea' or nm == 'iframe' or
            not is_html_el(m, n) or dir_attr(n) is not None)


def bidi_of(m: M, seq: SeqNode, i: int) -> OptFlags:
    """Direction of the first strong character in tree order among the nodes seq[i:] and their consulted descendants."""
    if i < 0 or i >= len(seq):
        return None
    if is_tag(seq[i]):
        if bidi_skip(m, seq[i]):
            return bidi_of(m, seq, i + 1)
        if bidi_of(m, all_kids(m, seq[i]), 0) is not None:
            return bidi_of(m, all_kids(m, seq[i]), 0)
        return bidi_of(m, seq, i + 1)
    if is_special(seq[i]):
        return bidi_of(m, seq, i + 1)
    if first_strong(text(seq[i]), 0) is not None:
        return first_strong(text(seq[i]), 0)
    return bidi_of(m, seq, i + 1)


def auto_text_input(m: M, el: Node) -> bool:
    """Elements whose dir=auto looks at their value: textarea and the text-like input types."""
    t = ascii_lower(as_str(attr_by_name(el, 'type', '')))
    return tag_name(m, el) == 'textarea' or (tag_name(m, el) == 'input' and
                                             (t == 'text' or t == 'search' or t == 'tel' or t == 'url' or t == 'email'))


def auto_value(m: M, el: Node) -> str:
    if tag_name(m, el) == 'textarea':
        return join_empty(texts_from(own_contents(m, el, True), 0))
    return as_str(attr_by_name(el, 'value', ''))


def dir_of(m: M, el: Node) -> OptFlags:
    """HTML directionality of el: its dir attribute; ltr for the root and for input[type=tel]; for dir=auto (and bdi) the first
    strong character of its value / consulted text; otherwise its parent's (same document); None when nothing decides."""
    if el is None or not is_html_el(m, el):
        return None
    dd = dir_attr(el)
    if dd is not None and dd != 0:
        return dd
    if is_root_el(m, el) and dd is None:
        return SEL_DIR_LTR
    if (tag_name(m, el) == 'input' and ascii_lower(as_str(attr_by_name(el, 'type', ''))) == 'tel') and dd is None:
        return SEL_DIR_LTR
    if auto_text_input(m, el) and dd is not None:
        if auto_value(m, el) != '':
            if first_strong(auto_value(m, el), 0) is not None:
                return first_strong(auto_value(m, el), 0)
            return SEL_DIR_LTR
        if is_root_el(m, el):
            return SEL_DIR_LTR
        return dir_of(m, parent_of(m, el, True))
    if (tag_name(m, el) == 'bdi' and dd is None) or dd is not None:
        if bidi_of(m, all_kids(m, el), 0) is not None:
            return bidi_of(m, all_kids(m, el), 0)
        if is_root_el(m, el):
            return SEL_DIR_LTR
        return dir_of(m, parent_of(m, el, True))
    return dir_of(m, parent_of(m, el, True))


def sem_dir(m: M, el: Node, d: Flags) -> bool:
    """:dir(ltr) / :dir(rtl): the element's directionality is the one asked for (never both)."""
    if (d & SEL_DIR_LTR) != 0 and (d & SEL_DIR_RTL) != 0:
        return False
    return dir_of(m, el) is not None and dir_of(m, el) == d


# ---------------------------------------------------------------------------------------------- get_descendants (C03, C19)

def last_desc(n: Node) -> Node:
    """The last node of n's subtree in document order (n itself when it has no children)."""
    if n is None or not is_tag(n) or len(contents(n)) == 0:
        return n
    return last_desc(contents(n)[len(contents(n)) - 1])


def desc_flat(m: M, D: SeqNode, i: int, tags: bool, no_iframe: bool) -> SeqNode:
    """Over the pre-order sequence D from position i on: every node (only Tags when asked), in order, except that the subtree below an
    iframe element is passed over when no_iframe (the iframe element itself is kept)."""
    if i < 0 or i >= len(D):
        return []
    if is_tag(D[i]):
        if no_iframe and is_iframe_el(m, D[i]):
            return [D[i]] + desc_flat(m, D, i + 1 + dsize(D[i]), tags, no_iframe)
        return [D[i]] + desc_flat(m, D, i + 1, tags, no_iframe)
    if not tags:
        return [D[i]] + desc_flat(m, D, i + 1, tags, no_iframe)
    return desc_flat(m, D, i + 1, tags, no_iframe)


def desc_def(m: M, el: Node, tags: bool, no_iframe: bool) -> SeqNode:
    """What get_descendants yields: nothing for a missing element or (no_iframe) an iframe, otherwise desc_flat over el's pre-order."""
    if el is None or (no_iframe and is_iframe_el(m, el)):
        return []
    return desc_flat(m, descendants(el), 0, tags, no_iframe)


# ---------------------------------------------------------------------------------------------- line and column of an offset (C20.O1)

def brk_cnt(s: str, k: int, index: int) -> int:
    """Number of line breaks of s, from the k-th on, that end at or before offset index (line breaks are the matches before the last
    one of ls_starts(s); they come in increasing order, so counting stops at the first that ends later)."""
    if k < 0 or k >= len(ls_starts(s)) - 1 or ls_end(s, ls_starts(s)[k]) > index:
        return 0
    return 1 + brk_cnt(s, k + 1, index)


def line_begin(s: str, k: int, index: int, acc: int) -> int:
    """Offset just after the last line break (from the k-th on) that ends at or before index; acc when there is none."""
    if k < 0 or k >= len(ls_starts(s)) - 1 or ls_end(s, ls_starts(s)[k]) > index:
        return acc
    return line_begin(s, k + 1, index, ls_end(s, ls_starts(s)[k]))


def line_of(s: str, index: int) -> int:
    """C20: line = 1 + number of line breaks before the offset."""
    return 1 + brk_cnt(s, 0, index)


def col_of(s: str, index: int) -> int:
    """C20: column = offset within that line + 1."""
    return index - line_begin(s, 0, index, 0) + 1


# ---------------------------------------------------------------------------------------------- value lists of :lang() / :-soup-contains() (C13, C19.O6)
from pyvc.rx_rules import MATCH as Match   # noqa: E402
SeqMatch = TSeq(Match)


def value_of(tok: str) -> str:
    """One item of a value list: a quoted string without its quotes, decoded by the string grammar; otherwise an identifier, decoded."""
    if tok[0:1] == '"' or tok[0:1] == "'":
        return unesc(tok[1:len(tok) - 1], True)
    return unesc(tok, False)


def vals_from(s: str, k: int) -> SeqStr:
    """The decoded items of the value list s from its k-th token on (separators skipped)."""
    if k < 0 or k >= len(rv_starts(s)):
        return []
    if rv_split(s, rv_starts(s)[k]):
        return vals_from(s, k + 1)
    return [value_of(rv_value(s, rv_starts(s)[k]))] + vals_from(s, k + 1)
