"""Vocabulary primitives shared by the specs: concrete implementations (CPython, used for replay and the
bounded tier); their symbolic counterparts are registered in pyvc/prims_sym.py."""
from __future__ import annotations
import re
from pyvc.dsl import prim


@prim
def fullmatch(regex, s):
    return re.fullmatch(regex, s) is not None


@prim
def dec(s):
    """Value of a string of ASCII digits."""
    return int(s, 10) if re.fullmatch('[0-9]+', s) else -1


@prim
def fdec(s):
    return float(s)


@prim
def cp(c):
    """One-character string for code point c."""
    return chr(c)


@prim
def hexdigits(c):
    return format(c, 'x')
