"""Meaning of the small parsing steps (text of one token -> effect on the working compound), written from the Selectors grammar and the
pseudo-class tables of the documentation.  Flag constants are read from the real modules (they are an encoding detail)."""
from __future__ import annotations
import soupsieve  # noqa: F401
from soupsieve import css_parser as _cp
from pyvc.dsl import abstract
from pyvc.types import INT, BOOL, STR, TOpt, TSeq
from pyvc.tree import CSSPARSER as Parser, SELLIST as SelList, SELNTH as SelNth

from soupsieve import css_types as _ct
SEL_ROOT = _ct.SEL_ROOT
SEL_SCOPE = _ct.SEL_SCOPE
SEL_EMPTY = _ct.SEL_EMPTY
FLG_PSEUDO = _cp.FLG_PSEUDO
FLG_NOT = _cp.FLG_NOT
FLG_RELATIVE = _cp.FLG_RELATIVE
FLG_OPEN = _cp.FLG_OPEN
FLG_FORGIVE = _cp.FLG_FORGIVE
PSEUDO_SIMPLE_NO_MATCH = _cp.PSEUDO_SIMPLE_NO_MATCH
PSEUDO_COMPLEX = _cp.PSEUDO_COMPLEX
CSS_DEFINED = getattr(_cp, 'CSS_DEFINED', None)
CSS_LINK = getattr(_cp, 'CSS_LINK', None)
CSS_CHECKED = getattr(_cp, 'CSS_CHECKED', None)
CSS_DEFAULT = getattr(_cp, 'CSS_DEFAULT', None)
CSS_INDETERMINATE = getattr(_cp, 'CSS_INDETERMINATE', None)
CSS_DISABLED = getattr(_cp, 'CSS_DISABLED', None)
CSS_ENABLED = getattr(_cp, 'CSS_ENABLED', None)
CSS_REQUIRED = getattr(_cp, 'CSS_REQUIRED', None)
CSS_OPTIONAL = getattr(_cp, 'CSS_OPTIONAL', None)
CSS_READ_ONLY = getattr(_cp, 'CSS_READ_ONLY', None)
CSS_READ_WRITE = getattr(_cp, 'CSS_READ_WRITE', None)
CSS_IN_RANGE = getattr(_cp, 'CSS_IN_RANGE', None)
CSS_OUT_OF_RANGE = getattr(_cp, 'CSS_OUT_OF_RANGE', None)
CSS_PLACEHOLDER_SHOWN = getattr(_cp, 'CSS_PLACEHOLDER_SHOWN', None)
CSS_DIR_LTR = getattr(_cp, 'CSS_DIR_LTR', None)
CSS_DIR_RTL = getattr(_cp, 'CSS_DIR_RTL', None)


@abstract
def ps_result(p: Parser, pos: int, index: int, flags: int) -> SelList:
    """Name of what parse_selectors returns when the token iterator stands at `pos` (its consumption is explicit: the call advances
    iselector.pos).  Only functional consistency is used."""
    raise NotImplementedError('ps_result is a name, not a computation')


def open_flags(name: str) -> int:
    """Context flags for the selector list inside a functional pseudo-class: :not() negates, :has() is relative, :is()/:where() forgive."""
    if name == ':not':
        return FLG_PSEUDO | FLG_OPEN | FLG_NOT
    if name == ':has':
        return FLG_PSEUDO | FLG_OPEN | FLG_RELATIVE
    if name == ':where' or name == ':is':
        return FLG_PSEUDO | FLG_OPEN | FLG_FORGIVE
    return FLG_PSEUDO | FLG_OPEN


def is_child_nth(x: SelNth, of_type: bool, last: bool) -> bool:
    """The An+B record of :first/:last-child / -of-type: position 1 exactly (a=1 with no `n` term, b=0), no `of S` list."""
    return x.a == 1 and (not x.n) and x.b == 0 and x.of_type == of_type and x.last == last and len(x.selectors.selectors) == 0 and \
        (not x.selectors.is_not) and (not x.selectors.is_html)
