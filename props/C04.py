"""C04 - answers do not depend on query history; matching never mutates the tree."""
from props._common import *  # noqa
ID = 'C04'
LEVEL = 'proof'
FUNCTIONS = HUB + [M + 'match', M + 'select', M + 'closest', M + 'filter']
TRUSTED = [A_PY, A_BS4, A_IR, A_SMT, OPAQUE_NOTE, A_INDET, A_SINGLE]
ASSUMPTIONS = TRUSTED
EXPLANATION = ('Every proved matcher contract has a postcondition that mentions only the pure function sem of (selector, tree, target), and the hub proof '
               'includes the frame obligations that self.namespaces and self.iframe_restrict equal their entry values on every path.')
LEVEL_TEXT = EXPLANATION
TIMEOUT_MS = {'quick': 20000, 'thorough': 120000}
MUSTFAIL_PER_FN = {'quick': 1, 'thorough': 6}
BOUNDED = [hub_bounded('C04-history-and-tree', ['basic', 'forms', 'lang', 'iframe', 'attrs', 'identical', 'plain', 'ns', 'xforms', 'langmeta', 'xlang', 'radio-order', 'api'], ['core', 'html', 'lang'])]


def _f2(ctx):
    from pyvc import frames
    return frames.F2_no_tree_writes(ctx)


STRUCTURAL = [_f2]

VALIDATION = [validate_bs4, validate_ir]

FUNCTIONS = FUNCTIONS + [q for q in CACHE + LANG + INDET if q not in FUNCTIONS]
STRUCTURAL = (globals().get('STRUCTURAL') or []) + [indet_structural]
SHARDS = dict(SHARDS)

FUNCTIONS = FUNCTIONS + [q for q in (M + '__init__', M + 'match_nth', M + 'match_subselectors', M + 'match_past_relations', M + 'match_future_child',
                                     M + 'match_future_relations', M + 'match_relations') if q not in FUNCTIONS]
EXPLANATION = ('Every proved matcher contract has a postcondition that mentions only the pure function sem of (selector, tree, target). The per-call state is handled '
               'explicitly: the hub proof includes the frame obligations that self.namespaces and self.iframe_restrict equal their entry values on every path, and the '
               'three memo tables are covered by a representation invariant each (every memoised (form, button) pair is that form\'s default button; every memoised '
               '(top node, language) pair is that document\'s content-language pragma; every memoised (owner, name, verdict) triple is the verdict of that radio group whichever '
               'element asked), established by __init__, required and ensured by every matcher method and every loop, preserved by match_default / match_lang / match_indeterminate '
               'when they append - via base/step induction lemmas - so that a memoised answer equals the recomputed one. F2: no function of css_match.py writes to a tree node.')
LEVEL_TEXT = EXPLANATION + ' The radio-group table needs the element asking not to be a checked member itself: see the assumption on match_indeterminate.'
