"""C04 - answers do not depend on query history; matching never mutates the tree."""
from props._common import *  # noqa
ID = 'C04'
LEVEL = 'proof'
FUNCTIONS = HUB + [M + 'match', M + 'select', M + 'closest', M + 'filter']
TRUSTED = [A_PY, A_BS4, A_IR, A_SMT, OPAQUE_NOTE]
ASSUMPTIONS = TRUSTED
EXPLANATION = ('Every proved matcher contract has a postcondition that mentions only the pure function sem of (selector, tree, target), and the hub proof '
               'includes the frame obligations that self.namespaces and self.iframe_restrict equal their entry values on every path.')
LEVEL_TEXT = EXPLANATION
TIMEOUT_MS = {'quick': 20000, 'thorough': 120000}
MUSTFAIL_PER_FN = {'quick': 1, 'thorough': 6}
BOUNDED = [hub_bounded('C04-history-and-tree', ['basic', 'forms', 'lang', 'iframe', 'attrs', 'identical', 'plain', 'ns', 'api'], ['core', 'html', 'lang'])]


def _f2(ctx):
    from pyvc import frames
    return frames.F2_no_tree_writes(ctx)


STRUCTURAL = [_f2]

VALIDATION = [validate_bs4]
