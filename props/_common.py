"""Shared lists for the property modules."""
N = 'soupsieve.css_match._DocumentNav.'
M = 'soupsieve.css_match.CSSMatch.'
NAV = [N + f for f in ('is_doc', 'is_tag', 'is_declaration', 'is_cdata', 'is_processing_instruction', 'is_navigable_string',
                       'is_special_string', 'is_content_string', 'is_xml_tree', 'get_tag_name', 'get_prefix_name', 'get_uri',
                       'has_html_ns', 'is_iframe', 'is_root', 'get_parent', 'get_previous', 'get_next', 'get_previous_tag',
                       'get_next_tag', 'get_contents')]
ATTRS = [M + f for f in ('match_id', 'match_classes', 'match_attribute_name', 'match_attributes')] + \
        [N + f for f in ('get_attribute_by_name', 'get_classes', 'iter_attributes')]
TAGS = [M + f for f in ('supports_namespaces', 'get_tag_ns', 'is_html_tag', 'get_tag', 'get_prefix', 'match_namespace',
                        'match_tagname', 'match_tag')]
RELS = [M + f for f in ('match_past_relations', 'match_future_child', 'match_future_relations', 'match_relations',
                        'match_subselectors')]
HUB = [M + 'match_selectors']
ENTRY = [M + f for f in ('match', 'select', 'closest', 'filter', 'match_scope')]
COMMON_SHARDS = SHARDS = {'match_dir': 8, 'get_descendants': 2, 'match_selectors': 16, 'match_nth': 4, 'match_range': 8, 'match_default': 8, 'match_lang': 16, 'match_indeterminate': 4, 'extended_language_filter': 8, 'match_past_relations': 4, 'match_future_relations': 4, 'parse_value': 8}
A_PY = 'A-py (E1-E6: Python evaluation semantics assumed by the encoding; ints mathematical)'
A_BS4 = 'A-bs4 (bs4 object model: parent/contents/sibling links, node kinds, attribute views; accessors side-effect free)'
A_IR = 'A-ir (IR values are finite and acyclic; matcher contracts quantify over well-formed IR: ir_wf_list)'
A_SMT = 'A-smt (z3 5.1 / cvc5 1.0.3 answer unsat only when true)'
A_RE = 'A-re (CPython re accepts exactly the translated language of the patterns involved)'
OPAQUE_NOTE = ('contracts assumed, not discharged by pyvc (their bodies are covered only by the bounded tier): normalize_value, split_namespace, create_fake_parent '
               '(bs4 attribute-key and object-construction internals); '
               ' termination of the mutual recursion through sub-lists rests on A-ir')

ALL_HTML = ['basic', 'nows', 'multiroot', 'forms', 'ranges', 'lang', 'langmeta', 'radio-order', 'dir', 'iframe', 'text', 'attrs', 'identical']
ALL_XML = ['ns', 'svghtml', 'plain', 'xforms', 'xlang']


def hub_bounded(name, docs, groups, nsnames=('none',)):
    def run(ctx):
        from pyvc import bounded
        return bounded.run_hub(name, docs, groups, nsnames=nsnames, tier=ctx['tier'], seed=ctx['seed'], jobs=ctx['jobs'])
    run.__name__ = name
    return run


def laws_bounded(name, docs, groups, nsnames=('none',)):
    def run(ctx):
        from pyvc import bounded
        return bounded.run_laws(name, docs, groups, nsnames=nsnames, tier=ctx['tier'], seed=ctx['seed'], jobs=ctx['jobs'])
    run.__name__ = name
    return run

STRUCT = [M + 'match_empty', M + 'match_root']

KIDS = [N + f for f in ('get_children', 'get_tag_children', 'get_text', 'get_own_text')] + [M + 'match_defined', M + 'match_placeholder_shown']


def validate_bs4(ctx):
    from pyvc import validate_bs4 as v
    return v.sweep(ctx)

CACHE = [M + 'match_default', N + 'get_tag_descendants', 'lemma.C04_cache_snoc_base', 'lemma.C04_cache_snoc_step']
LANG = [M + 'match_lang', 'lemma.C04_lang_snoc_base', 'lemma.C04_lang_snoc_step']
A_SINGLE = ('A-bs4-single (lang, http-equiv, content, dir, type and value attributes hold one string, as every shipped tree builder stores them: '
            'a builder configured with multi_valued_attributes for them is outside the domain)')

INDET = [M + 'match_indeterminate', M + 'match_indeterminate.get_parent_form', 'lemma.C04_indet_snoc_base', 'lemma.C04_indet_snoc_step',
         'lemma.C17_exclude_base', 'lemma.C17_exclude_step', 'lemma.C17_guard_base', 'lemma.C17_guard_step_ns', 'lemma.C17_guard_step_ci']
A_INDET = ('match_indeterminate assumes that the element asking is not itself a checked member of its radio group. Discharged in pieces: structural obligations '
           'C17.S-indet-flag/-guard/-only/-hub-order (the flag exists only on the compound of CSS_INDETERMINATE that also carries :not([checked]), whose sub-lists the hub '
           'evaluates first) and lemmas C17_guard_* (an element without a `checked` attribute under the selector\'s name comparison is never a checked member); '
           'their composition (unfolding sem_list on that one concrete sub-list) is argued in DESIGN.md, not machine-checked')


def indet_structural(ctx):
    from pyvc import structural
    return structural.C17_indet_guard(ctx)

DIRFN = [M + 'match_dir', M + 'find_bidi']
A_BIDI = ('unicodedata.bidirectional is an uninterpreted total function of the character (bidi_class); finite trees: a node is strictly lower than its parent '
          '(height), which bounds the recursive descent of find_bidi')


def validate_ir(ctx):
    from pyvc import validate_ir as v
    return v.sweep(ctx)

DESC = [N + 'get_descendants', N + 'get_tag_descendants']
A_PRE = ('A-bs4-preorder: el.descendants is the pre-order flattening of el\'s subtree - for c = D[i]: the subtree of c occupies the next len(c.descendants) positions, a next '
         'sibling follows it immediately, next_element of its last descendant is what follows (None only at the very end), no node occurs twice; instantiated per term by '
         'the get_descendants proof and validated natively on every node of every corpus tree on every run. desc_spec is the name callers use for the result of this pure '
         'function; what is proved about it is desc_def (pre-order, iframe subtrees passed over)')

CP = 'soupsieve.css_parser.CSSParser.'
PARSE_SMALL = [CP + 'parse_class_id@id', CP + 'parse_class_id@class', CP + 'parse_pseudo_dir', CP + 'parse_pseudo_lang', CP + 'parse_pseudo_contains',
               CP + 'parse_tag_pattern', CP + 'parse_pseudo_open', CP + 'parse_pseudo_class']
A_TOK = ('parse_* contracts: the match object is any match of the token pattern with its look-arounds dropped (a superset of the real matches, so what is proved of '
         'all of them holds of the real ones); each token finditer yields is such a match at its start offset; warnings.warn returns None (default filters); '
         'structural obligations C06.S-token-flags/-token-table/-dispatch tie the sidecar patterns to SelectorPattern and to the dispatch in parse_selectors; '
         'parse_selectors (named result ps_result, explicit token consumption), parse_attribute_selector (operator templates only), parse_pseudo_class_custom, parse_pseudo_nth, the combinator methods and selector_iter are not under discharged contracts')


def dispatch_structural(ctx):
    from pyvc import structural
    return structural.C06_dispatch(ctx)


def validate_single(ctx):
    from pyvc import validate_bs4 as v
    return v.single_valued(ctx)
