"""C05 - selector lists and logical pseudo-classes form a Boolean algebra."""
from props._common import *  # noqa
ID = 'C05'
LEVEL = 'proof'
FUNCTIONS = ['lemma.C05_L1_complement', 'lemma.C05_html_only_list', 'lemma.C05_shift_base', 'lemma.C05_shift_step', 'lemma.C05_union_base',
             'lemma.C05_union_step', 'lemma.C05_L2_union', 'lemma.C05_L3_monotone', 'lemma.C05_L4_sub_conjunct'] + HUB + [M + 'match_subselectors']
TRUSTED = [A_PY, A_BS4, A_IR, A_SMT, 'induction over the naturals as the meta-rule combining each base/step lemma pair',
           'parser composition (A, B -> concatenated alternatives; :not/:is/:where carry the same inner list) is bounded, not proved']
ASSUMPTIONS = TRUSTED
EXPLANATION = ('The laws are stated as lemmas over sem (complement, union via any_from over a concatenation with base/step induction lemmas, '
               'monotonicity, X:is(A) as intersection) and discharged by z3; the hub proof ties sem to match_selectors, including that the '
               'namespace map and iframe restriction swapped for HTML-only lists are restored on every path.')
LEVEL_TEXT = EXPLANATION
TIMEOUT_MS = {'quick': 20000, 'thorough': 120000}
MUSTFAIL_PER_FN = {'quick': 1, 'thorough': 6}
BOUNDED = [laws_bounded('C05-laws', ['basic', 'forms', 'iframe', 'dir', 'ns', 'svghtml', 'plain', 'svg5'], ['core', 'html', 'ns'], nsnames=('none', 'svg', 'default-html'))]


def _bt_laws(ctx):
    from pyvc import bounded_text
    return bounded_text.text_level_laws(ctx)


BOUNDED = BOUNDED + [_bt_laws]

VALIDATION = (globals().get('VALIDATION') or []) + [validate_ir]

FUNCTIONS = FUNCTIONS + [q for q in [q for q in PARSE_SMALL if q.endswith("parse_pseudo_open")] if q not in FUNCTIONS]
STRUCTURAL = (globals().get('STRUCTURAL') or []) + [dispatch_structural]
TRUSTED = list(TRUSTED) + [A_TOK]
ASSUMPTIONS = TRUSTED
