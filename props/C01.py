"""C01 - select() returns exactly the elements CSS semantics designate."""
from props._common import *  # noqa
ID = 'C01'
LEVEL = 'proof'
FUNCTIONS = HUB + RELS + TAGS + NAV
TRUSTED = [A_PY, A_BS4, A_IR, A_SMT, OPAQUE_NOTE]
ASSUMPTIONS = TRUSTED
EXPLANATION = ('The compound pipeline match_selectors is proved equal to the CSS meaning sem_list (spec/css_sem.py) for all trees and all '
               'well-formed IR of any nesting depth; backward/forward combinator walks are proved against recursive ancestor/sibling/descendant '
               'specs (only elements are ancestors: the document object is excluded); type/namespace tests against the Selectors tables.')
LEVEL_TEXT = EXPLANATION + ' Sub-matchers still under assumed contracts are listed in level_note; text->IR is bounded.'
TIMEOUT_MS = {'quick': 20000, 'thorough': 120000}
MUSTFAIL_PER_FN = {'quick': 1, 'thorough': 6}
BOUNDED = [hub_bounded('C01-hub-contract', ALL_HTML + ALL_XML + ['svg5', 'small', 'api'], ['core'])]


def _bt_attr_ops(ctx):
    from pyvc import bounded_text
    return bounded_text.attr_ops(ctx)


def _bt_laws(ctx):
    from pyvc import bounded_text
    return bounded_text.text_level_laws(ctx)


BOUNDED = BOUNDED + [_bt_attr_ops, _bt_laws]

FUNCTIONS = FUNCTIONS + [M + 'match_nth', M + 'match_nth_tag_type']

FUNCTIONS = FUNCTIONS + [q for q in ATTRS if q not in FUNCTIONS]

FUNCTIONS = FUNCTIONS + [q for q in STRUCT if q not in FUNCTIONS]

FUNCTIONS = FUNCTIONS + [M + 'match_contains']

FUNCTIONS = FUNCTIONS + [q for q in KIDS if q not in FUNCTIONS]


def _templates(ctx):
    from pyvc import templates
    return templates.template_obligations(ctx)


STRUCTURAL = (globals().get('STRUCTURAL') or []) + [_templates]

VALIDATION = [validate_bs4, validate_ir]

FUNCTIONS = FUNCTIONS + [q for q in CACHE if q not in FUNCTIONS]

FUNCTIONS = FUNCTIONS + [q for q in [q for q in PARSE_SMALL if q.split(".")[-1].split("@")[0] in ("parse_class_id", "parse_tag_pattern", "parse_pseudo_class", "parse_pseudo_open")] if q not in FUNCTIONS]
STRUCTURAL = (globals().get('STRUCTURAL') or []) + [dispatch_structural]
TRUSTED = list(TRUSTED) + [A_TOK]
ASSUMPTIONS = TRUSTED
