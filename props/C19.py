"""C19"""
from props._common import *  # noqa

ID = 'C19'
LEVEL = 'other'
MANIFEST_LEVEL = 'other'
FUNCTIONS = [N + f for f in ('is_special_string', 'is_content_string', 'is_navigable_string', 'is_cdata', 'is_declaration', 'is_processing_instruction', 'get_contents')] + HUB
BOUNDED = [hub_bounded('C19-text-hub', ['text', 'iframe', 'basic', 'multiroot', 'small', 'plain'], ['text'])]
TRUSTED = [A_PY, A_BS4, 'get_descendants (iframe skipping), get_text/get_own_text, match_contains, match_empty and parse_pseudo_contains are not yet under discharged contracts: bounded']
ASSUMPTIONS = TRUSTED
EXPLANATION = ('Proved: node-kind classification (content string = NavigableString that is not comment/CDATA/PI/declaration/doctype), get_contents with the iframe cut, the hub. '
               'Bounded: :-soup-contains / -own / :empty against the text-content reference on trees interleaving text, comments, CDATA, PIs and iframes.')
LEVEL_TEXT = EXPLANATION
TECHNIQUE = 'VC-proved classification contracts + bounded evaluation of the text-content contracts'
MUSTFAIL = False


def _bt_value_lists(ctx):
    from pyvc import bounded_text
    return bounded_text.value_lists(ctx)


BOUNDED = BOUNDED + [_bt_value_lists]
