"""C19"""
from props._common import *  # noqa

ID = 'C19'
LEVEL = 'proof'
FUNCTIONS = [N + f for f in ('is_special_string', 'is_content_string', 'is_navigable_string', 'is_cdata', 'is_declaration', 'is_processing_instruction', 'get_contents')] + HUB
BOUNDED = [hub_bounded('C19-text-hub', ['text', 'iframe', 'basic', 'multiroot', 'small', 'plain'], ['text'])]
TRUSTED = [A_PY, A_BS4, A_SMT, A_PRE, 'parse_pseudo_contains (value-list decoding) is bounded']
ASSUMPTIONS = TRUSTED
EXPLANATION = ('Proved: node-kind classification (content string = NavigableString that is not comment/CDATA/PI/declaration/doctype), get_contents with the iframe cut, the hub. '
               'match_contains is proved: every list needs some text inside the joined descendant text / inside ONE own text node, the two kinds computed separately and reused; match_empty is proved. '
               'get_text / get_own_text are proved to be the join / the list of the content strings among get_descendants / get_contents, and get_descendants is proved to yield, over bs4\'s pre-order el.descendants, every node (only Tags when asked) in order with the subtree below an iframe element passed over (A-bs4-preorder, validated natively). '
               'Bounded: the same text extraction once more against an independent reference on trees interleaving text, comments, CDATA, PIs and iframes; value-list decoding.')
LEVEL_TEXT = EXPLANATION
TECHNIQUE = 'contract-based deductive verification (VCs from the real AST, z3/cvc5) of node kinds, the descendant walk, text extraction and match_contains/match_empty + bounded evaluation against an independent reference and of value-list decoding'
MUSTFAIL_PER_FN = {'quick': 1, 'thorough': 6}


def _bt_value_lists(ctx):
    from pyvc import bounded_text
    return bounded_text.value_lists(ctx)


BOUNDED = BOUNDED + [_bt_value_lists]

FUNCTIONS = FUNCTIONS + [q for q in STRUCT if q not in FUNCTIONS]

FUNCTIONS = FUNCTIONS + [M + 'match_contains']

FUNCTIONS = FUNCTIONS + [q for q in dict.fromkeys(KIDS + DESC) if q not in FUNCTIONS]

VALIDATION = [validate_bs4]

FUNCTIONS = FUNCTIONS + [q for q in [q for q in PARSE_SMALL if q.endswith("parse_pseudo_contains")] if q not in FUNCTIONS]
STRUCTURAL = (globals().get('STRUCTURAL') or []) + [dispatch_structural]
TRUSTED = list(TRUSTED) + [A_TOK]
ASSUMPTIONS = TRUSTED
