"""C20"""
from props._common import *  # noqa

ID = 'C20'
LEVEL = 'other'
MANIFEST_LEVEL = 'other'
FUNCTIONS = ['soupsieve.util.get_pattern_context']

def _bt_diag(ctx):
    from pyvc import bounded_text
    return bounded_text.diag(ctx)


def _bt_pretty_sweep(ctx):
    from pyvc import bounded_text
    return bounded_text.pretty_sweep(ctx)


def _f4(ctx):
    from pyvc import frames
    return frames.F4_debug_only_prints(ctx)


STRUCTURAL = [_f4]
BOUNDED = [_bt_diag, _bt_pretty_sweep]
TRUSTED = [A_PY, A_RE, 'A-re-finditer: RE_PATTERN_LINE_SPLIT.finditer(s) yields the line breaks of s in order (CRLF as one) and then one empty match at len(s) - assumed by the get_pattern_context contract, validated exhaustively to length 7 (10) on every run', 'the context string with its caret (result[0]) and pretty are not under discharged contracts: bounded (exhaustive to length 5/7)']
ASSUMPTIONS = TRUSTED
EXPLANATION = ('Proved (VCs from the real AST, z3): for every pattern and every offset 0..len(pattern), get_pattern_context returns line == 1 + the number of line breaks that end at or before the offset and column == offset - (end of the last such break, or 0) + 1, over the line-split matches (loop invariant over finditer). Structural: code under `if self.debug:` only prints and DEBUG is read nowhere else (F4). Bounded: line/column/caret of get_pattern_context against the formula of the '
               'property for all strings over {a, CR, LF} up to length 5 (7) and all offsets incl. the end; error positions of malformed patterns; pretty() terminates and equals repr up to whitespace.')
LEVEL_TEXT = EXPLANATION
TECHNIQUE = 'contract-based deductive verification of the offset -> (line, column) loop + effect obligation over the parser AST + bounded (exhaustive small scope) evaluation of the context string and of pretty()'


def _progress(ctx):
    from pyvc import structural
    res = structural.token_progress(ctx)
    return [o for o in res if o['id'].startswith('C20')]


STRUCTURAL = (globals().get('STRUCTURAL') or []) + [_progress]


def _v_line_split(ctx):
    from pyvc import bounded_misc
    return bounded_misc.validate_line_split(ctx)


VALIDATION = [_v_line_split]
MUSTFAIL_PER_FN = {'quick': 6, 'thorough': None}
