"""C20"""
from props._common import *  # noqa

ID = 'C20'
LEVEL = 'other'
MANIFEST_LEVEL = 'other'
FUNCTIONS = []

def _bt_diag(ctx):
    from pyvc import bounded_text
    return bounded_text.diag(ctx)


def _bt_pretty_sweep(ctx):
    from pyvc import bounded_text
    return bounded_text.pretty_sweep(ctx)


def _f4(ctx):
    from pyvc import frames
    return frames.F4_debug_only_prints(ctx)


STRUCTURAL = [_f4]
BOUNDED = [_bt_diag, _bt_pretty_sweep]
TRUSTED = [A_PY, A_RE, 'get_pattern_context and pretty are not yet under discharged contracts: bounded (exhaustive to length 5/7 for the offset formula)']
ASSUMPTIONS = TRUSTED
EXPLANATION = ('Structural: code under `if self.debug:` only prints and DEBUG is read nowhere else (F4). Bounded: line/column/caret of get_pattern_context against the formula of the '
               'property for all strings over {a, CR, LF} up to length 5 (7) and all offsets incl. the end; error positions of malformed patterns; pretty() terminates and equals repr up to whitespace.')
LEVEL_TEXT = EXPLANATION
TECHNIQUE = 'effect obligation over the parser AST + bounded (exhaustive small scope) evaluation of the diagnostic contracts'


def _progress(ctx):
    from pyvc import structural
    res = structural.token_progress(ctx)
    return [o for o in res if o['id'].startswith('C20')]


STRUCTURAL = (globals().get('STRUCTURAL') or []) + [_progress]
