"""C11 - name and value case rules follow the document type."""
from props._common import *  # noqa
ID = 'C11'
LEVEL = 'proof'
FUNCTIONS = [M + f for f in ('get_tag', 'get_prefix', 'match_tagname', 'match_tag', 'supports_namespaces', 'get_tag_ns', 'is_html_tag')] + \
            [N + f for f in ('is_xml_tree', 'get_tag_name', 'has_html_ns', 'is_iframe')] + ['soupsieve.util.lower', 'lemma.C05_html_only_list'] + HUB
TRUSTED = [A_PY, A_BS4, A_SMT, 'util.lower proved over code points; its SMT-string view ascii_lower is the same function in the other string representation',
           'value folding is decided when the pattern is compiled (parse_attribute_selector): bounded attribute-operator sweep; name folding (match_attribute_name, get_attribute_by_name) is proved']
ASSUMPTIONS = TRUSTED
EXPLANATION = ('Tag-name comparison is proved to fold ASCII case exactly when the document is not XML (get_tag, match_tagname); util.lower is proved to be '
               'ASCII A-Z -> a-z; HTML-only lists are proved (lemma + hub) never to hold in a document that is XML but not XHTML.')
LEVEL_TEXT = EXPLANATION
TIMEOUT_MS = {'quick': 20000, 'thorough': 120000}
MUSTFAIL_PER_FN = {'quick': 1, 'thorough': 6}
BOUNDED = [hub_bounded('C11-case', ['attrs', 'basic', 'forms', 'ns', 'svghtml', 'plain', 'svg5', 'xforms'], ['ns', 'core', 'html'], nsnames=('none', 'svg'))]


def _bt_attr_ops(ctx):
    from pyvc import bounded_text
    return bounded_text.attr_ops(ctx)


BOUNDED = BOUNDED + [_bt_attr_ops]

FUNCTIONS = FUNCTIONS + [M + '__init__', N + 'assert_valid_input']

FUNCTIONS = FUNCTIONS + [q for q in ATTRS if q not in FUNCTIONS]


def _templates(ctx):
    from pyvc import templates
    return templates.template_obligations(ctx)


STRUCTURAL = (globals().get('STRUCTURAL') or []) + [_templates]
