"""C16 - importing works in either order and Beautiful Soup can always select."""
from props._common import *  # noqa
ID = 'C16'
LEVEL = 'other'
MANIFEST_LEVEL = 'other'
FUNCTIONS = []


def _f6(ctx):
    from pyvc import frames
    return frames.F6_import_time_bs4(ctx)


def _orders(ctx):
    from pyvc import bounded_misc
    return bounded_misc.import_orders(ctx)


STRUCTURAL = [_f6]
BOUNDED = [_orders]
TRUSTED = ['CPython import semantics: a module being imported is visible half-initialised to modules it imports (the mechanism the property is about)',
           'the enumeration covers the listed import statements only; F6 generalises to other orders by showing that nothing of bs4 is evaluated at import time']
ASSUMPTIONS = TRUSTED
EXPLANATION = ('Structural effect obligation F6 over every module of the package (no import-time expression - base class lists, decorators, defaults, '
               'module/class level statements, from-imports - evaluates anything of bs4; no output/warning statement at module level), plus a complete '
               'enumeration of the finite set of import sequences in fresh interpreters comparing both APIs.')
LEVEL_TEXT = EXPLANATION + ' Level "other": structural proof obligations over the real module ASTs + exhaustive finite enumeration; no SMT VCs are involved.'
TECHNIQUE = 'effect/frame obligations over the package ASTs (import-time reads of bs4) + exhaustive enumeration of import orders in fresh interpreters'
