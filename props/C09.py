"""C09"""
from props._common import *  # noqa

ID = 'C09'
LEVEL = 'other'
MANIFEST_LEVEL = 'other'
FUNCTIONS = ['soupsieve.util.lower']

def _bt_respell(ctx):
    from pyvc import bounded_text
    return bounded_text.respell(ctx)


def _bt_nth_parse(ctx):
    from pyvc import bounded_text
    return bounded_text.nth_parse(ctx)

BOUNDED = [_bt_respell, _bt_nth_parse]
TRUSTED = [A_PY, 'tokenisation is ordered-choice backtracking inside re, which the regex contracts deliberately do not model: the core of C09 is bounded']
ASSUMPTIONS = TRUSTED
EXPLANATION = ('Proved: util.lower is ASCII lower-casing (what keyword/name folding relies on). Bounded: compile(respelling) == compile(base) for seeded respellings '
               '(trivia at every optional point, escapes, quoting, keyword case) of base selectors covering combinators, lists, attribute selectors with flags, '
               ':is/:not/:has/:where, An+B with "of S", :lang, :dir, :-soup-contains, namespaces.')
LEVEL_TEXT = EXPLANATION
TECHNIQUE = 'bounded evaluation of the equivalence contract compile(respell(p)) == compile(p); VC-proved character-level lemma'
MUSTFAIL_PER_FN = {"quick": 2, "thorough": None}

FUNCTIONS = FUNCTIONS + ['soupsieve.css_parser.css_unescape.replace@esc', 'soupsieve.css_parser.css_unescape.replace@stresc', 'soupsieve.css_parser.css_unescape']


def _bt_value_lists(ctx):
    from pyvc import bounded_text
    return bounded_text.value_lists(ctx)


BOUNDED = BOUNDED + [_bt_value_lists]
