"""C03 - all query entry points are views of one match relation."""
from props._common import *  # noqa
ID = 'C03'
LEVEL = 'proof'
FUNCTIONS = ENTRY + [N + 'get_contents', N + 'get_parent'] + HUB
TRUSTED = [A_PY, A_BS4, A_IR, A_SMT, A_PRE]
ASSUMPTIONS = TRUSTED
EXPLANATION = ('CSSMatch.match/select/closest/filter are proved to be the views the property states (filtered tag-descendant sequence with limit, '
               'nearest matching ancestor-or-self and never the document object, matching element children) of one relation `matches`; the tag-descendant sequence is what '
               'get_descendants is proved to yield over bs4\'s pre-order el.descendants (document order, no node twice: A-bs4-preorder, validated natively).')
LEVEL_TEXT = EXPLANATION
TIMEOUT_MS = {'quick': 20000, 'thorough': 120000}
MUSTFAIL_PER_FN = {'quick': 1, 'thorough': 6}
BOUNDED = [hub_bounded('C03-entry-points', ['basic', 'nows', 'multiroot', 'identical', 'iframe', 'small', 'api', 'plain'], ['core'])]


def _s3(ctx):
    from pyvc import structural
    return structural.C03_structural(ctx)


STRUCTURAL = [_s3]

FUNCTIONS = FUNCTIONS + [M + '__init__', N + 'assert_valid_input']

VALIDATION = [validate_bs4]

FUNCTIONS = FUNCTIONS + [q for q in dict.fromkeys(CACHE + DESC) if q not in FUNCTIONS]
SHARDS = dict(SHARDS)
