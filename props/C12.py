"""C12 - namespace selectors compare URIs through the supplied prefix map."""
from props._common import *  # noqa
ID = 'C12'
LEVEL = 'proof'
FUNCTIONS = [M + f for f in ('supports_namespaces', 'get_tag_ns', 'is_html_tag', 'match_namespace', 'match_tag')] + [N + 'get_uri', N + 'has_html_ns'] + HUB
TRUSTED = [A_PY, A_BS4, A_SMT, 'split_namespace (reads .namespace/.name of a NamespacedAttribute key) and normalize_value under assumed contracts', 'A-bs4: in a tree that is not XML a namespaced attribute key has a local name']
ASSUMPTIONS = TRUSTED
EXPLANATION = ('match_namespace is proved equal to the table of the property (ns|E, *|E, |E, bare E with/without a default namespace, '
               'unmapped prefix matches nothing) for every element and every prefix map; the hub proof shows the caller\'s map is the one in force '
               'except inside pre-compiled HTML-only lists and is restored afterwards; match_attribute_name is proved equal to the attribute table ([ns|a] mapped namespace, '
               '[*|a] any namespace or none, [a]/[|a] no namespace processing, unmapped prefix nothing; names exact in XML, ASCII case-insensitive otherwise).')
LEVEL_TEXT = EXPLANATION
TIMEOUT_MS = {'quick': 20000, 'thorough': 120000}
MUSTFAIL_PER_FN = {'quick': 1, 'thorough': 6}
BOUNDED = [hub_bounded('C12-namespaces', ['ns', 'svghtml', 'plain', 'svg5', 'basic'], ['ns'], nsnames=('none', 'svg', 'default-html', 'default-x'))]

FUNCTIONS = FUNCTIONS + [q for q in ATTRS if q not in FUNCTIONS]

VALIDATION = [validate_bs4]

FUNCTIONS = FUNCTIONS + [q for q in [q for q in PARSE_SMALL if q.endswith("parse_tag_pattern")] if q not in FUNCTIONS]
STRUCTURAL = (globals().get('STRUCTURAL') or []) + [dispatch_structural]
TRUSTED = list(TRUSTED) + [A_TOK]
ASSUMPTIONS = TRUSTED
