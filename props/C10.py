"""C10"""
from props._common import *  # noqa

ID = 'C10'
LEVEL = 'proof'
FUNCTIONS = ['soupsieve.css_parser.escape']

def _bt_escape_roundtrip(ctx):
    from pyvc import bounded_text
    return bounded_text.escape_roundtrip(ctx)

BOUNDED = [_bt_escape_roundtrip]
TRUSTED = [A_PY, A_SMT, 'hex formatting of code points below 256 modelled exactly, above as an uninterpreted function (escape only formats code points <= 0x7F)',
           'composition with the identifier tokenizer and css_unescape (A-re) is bounded, not proved']
ASSUMPTIONS = TRUSTED
EXPLANATION = ('Proved for every string: escape(s) is the concatenation of the CSSOM serialize-an-identifier pieces (spec/strings.py esc_spec) and never raises '
               '(loop invariant string == esc_spec(ident, i) over code-point sequences). Bounded: the round trip through the parser.')
LEVEL_TEXT = EXPLANATION

FUNCTIONS = FUNCTIONS + ['soupsieve.css_parser.css_unescape.replace@esc', 'soupsieve.css_parser.css_unescape.replace@stresc', 'soupsieve.css_parser.css_unescape']
