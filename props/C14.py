"""C14 - concurrent compilation and matching behave as if run one at a time."""
from props._common import *  # noqa
ID = 'C14'
LEVEL = 'other'
MANIFEST_LEVEL = 'other'
FUNCTIONS = []


def _f3(ctx):
    from pyvc import frames
    return frames.F3_no_shared_writes(ctx)


def _b(ctx):
    from pyvc import bounded_misc
    return bounded_misc.threads_free_running(ctx)


STRUCTURAL = [_f3]
BOUNDED = [_b]
TRUSTED = ['A-gil (a thread switch happens only between bytecodes; lru_cache\'s C implementation is atomic)', 'A-lru',
           'meta-argument: calls that write only local, fresh or owned objects and read only immutable shared data are functions of their arguments, '
           'so every interleaving equals some serial order; no schedule is explored by the proof part',
           'compiled selectors are immutable (C15)']
ASSUMPTIONS = TRUSTED
EXPLANATION = ('Frame obligation F3 over every function of the package: no store, del, global or mutating call targets a shared object '
               '(module globals, class attributes, instances created at module/class level such as the token matchers in CSSParser.css_tokens); '
               'memoised functions return immutable values. This is the sufficient condition for serial equivalence; schedules themselves are not '
               'enumerated (this technique family is weak on concurrency), a free-running thread comparison is added as bounded exploration.')
LEVEL_TEXT = EXPLANATION
TECHNIQUE = 'frame/ownership obligations over the whole package (data-race freedom by construction) + stated meta-argument; bounded free-running threads'
