"""C08"""
from props._common import *  # noqa

ID = 'C08'
LEVEL = 'other'
MANIFEST_LEVEL = 'other'
Q = 'soupsieve.css_match.Inputs.'
FUNCTIONS = [Q + n for n in ('validate_day', 'validate_week', 'validate_month', 'validate_year', 'validate_hour', 'validate_minutes', 'parse_value')] + \
            [N + f for f in ('get_parent', 'get_previous', 'get_next', 'get_previous_tag', 'get_next_tag', 'is_root', 'is_iframe', 'get_contents')] + RELS + HUB + \
            [M + f for f in ('match', 'select', 'closest', 'filter')]
BOUNDED = [hub_bounded('C08-never-raises', ALL_HTML + ALL_XML + ['svg5', 'api', 'small'], ['core', 'nth', 'html', 'lang', 'text'])]
TRUSTED = [A_PY, A_BS4, A_RE, A_SMT, OPAQUE_NOTE, 'known findings C08-int-digit-limit, C18-week53-lenient']
ASSUMPTIONS = TRUSTED
EXPLANATION = ('In pyvc every operation that can raise is an obligation unless caught or allowed by the contract: for the functions listed (date/number parsing for all strings, '
               'tree walks up to a missing parent, sibling walks, the hub, the entry points) absence of exceptions and termination measures of their loops are proved. '
               'The remaining sub-matchers are exercised on the bounded corpus (odd attribute values, detached fragments, multi-rooted soups, malformed type/min/max/value).')
LEVEL_TEXT = EXPLANATION
TECHNIQUE = 'no-raise and variant obligations generated from the real ASTs (z3) + bounded sweep for the functions still under assumed contracts'
TIMEOUT_MS = {'quick': 30000, 'thorough': 120000}
MUSTFAIL_PER_FN = {'quick': 1, 'thorough': 4}

FUNCTIONS = FUNCTIONS + [M + '__init__', N + 'assert_valid_input']

FUNCTIONS = FUNCTIONS + [M + 'match_nth', M + 'match_nth_tag_type']

FUNCTIONS = FUNCTIONS + ['soupsieve.css_match.CSSMatch.match_range', 'soupsieve.css_match._DocumentNav.get_attribute_by_name']
SHARDS = {'match_range': 8, 'parse_value': 8, 'match_selectors': 16, 'match_nth': 4}

FUNCTIONS = FUNCTIONS + [q for q in ATTRS if q not in FUNCTIONS]

FUNCTIONS = FUNCTIONS + [q for q in STRUCT if q not in FUNCTIONS]

FUNCTIONS = FUNCTIONS + [M + 'match_contains']

FUNCTIONS = FUNCTIONS + [q for q in KIDS if q not in FUNCTIONS]

VALIDATION = [validate_bs4, validate_ir]

FUNCTIONS = FUNCTIONS + [q for q in CACHE + LANG + INDET[:2] + DIRFN if q not in FUNCTIONS]

VALIDATION = (globals().get('VALIDATION') or []) + [validate_single]
