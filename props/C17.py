"""C17"""
from props._common import *  # noqa

ID = 'C17'
LEVEL = 'proof'
FUNCTIONS = HUB + [N + 'get_parent', N + 'is_iframe', N + 'is_root']

def _bt_partition_laws(ctx):
    from pyvc import bounded_text
    return bounded_text.partition_laws(ctx)

BOUNDED = [_bt_partition_laws, hub_bounded('C17-html-hub', ['forms', 'ranges', 'dir', 'iframe', 'identical', 'basic', 'svg5', 'xforms', 'radio-order'], ['html'])]
TRUSTED = [A_PY, A_BS4, OPAQUE_NOTE, A_INDET, A_SINGLE, A_BIDI]
ASSUMPTIONS = TRUSTED
EXPLANATION = ('Bounded: the partition laws as set identities and every HTML state pseudo-class against the reference definitions (first submit button per form, radio groups '
               'by form or document, directionality, placeholder, ranges, iframe boundary) on form/fieldset/iframe documents. Proved: hub, iframe-aware parent walk, is_root, match_default (first submit button of the form owner, memo table), '
               'match_indeterminate == "no radio button of the same name under the same form owner (nearest HTML form, else the top of the document) is checked", with its memo table under the invariant indet_cache_ok; match_dir == the HTML directionality algorithm dir_of (own dir, root and tel defaults, dir=auto by first strong character of the value or of the consulted text via find_bidi, otherwise the parent\'s), both recursions terminating.')
LEVEL_TEXT = EXPLANATION
TECHNIQUE = 'contract-based deductive verification (VCs from the real AST, z3/cvc5) for :default, :indeterminate, ranges and placeholder (memo tables under an object invariant) and :dir() (recursion over ancestors and over the consulted subtree, with measures); bounded evaluation for the partition laws'
MUSTFAIL_PER_FN = {'quick': 1, 'thorough': 4}
TIMEOUT_MS = {'quick': 30000, 'thorough': 120000}

FUNCTIONS = FUNCTIONS + ['soupsieve.css_match.CSSMatch.match_range', 'soupsieve.css_match._DocumentNav.get_attribute_by_name']
SHARDS = {'match_range': 8, 'parse_value': 8, 'match_selectors': 16, 'match_nth': 4}

FUNCTIONS = FUNCTIONS + [q for q in KIDS if q not in FUNCTIONS]

VALIDATION = [validate_bs4]

FUNCTIONS = FUNCTIONS + [q for q in CACHE + INDET + DIRFN if q not in FUNCTIONS]
STRUCTURAL = (globals().get('STRUCTURAL') or []) + [indet_structural]
SHARDS = dict(SHARDS)

FUNCTIONS = FUNCTIONS + [q for q in [q for q in PARSE_SMALL if q.endswith("parse_pseudo_class") or q.endswith("parse_pseudo_dir")] if q not in FUNCTIONS]
STRUCTURAL = (globals().get('STRUCTURAL') or []) + [dispatch_structural]
TRUSTED = list(TRUSTED) + [A_TOK]
ASSUMPTIONS = TRUSTED

VALIDATION = (globals().get('VALIDATION') or []) + [validate_single]
