"""C13"""
from props._common import *  # noqa

ID = 'C13'
LEVEL = 'proof'
FUNCTIONS = HUB + [M + 'extended_language_filter']
SHARDS = {'match_selectors': 16, 'extended_language_filter': 8}
TIMEOUT_MS = {'quick': 30000, 'thorough': 120000}

def _bt_lang_filter(ctx):
    from pyvc import bounded_text
    return bounded_text.lang_filter(ctx)

BOUNDED = [_bt_lang_filter, hub_bounded('C13-lang-hub', ['lang', 'basic', 'attrs', 'plain', 'ns', 'svghtml'], ['lang'])]
TRUSTED = [A_PY, A_BS4, A_SMT, 'str.lower / str.split / re.sub are uninterpreted (the proof is about the matching loop on the split subtag lists); that stripping non-leading wildcards preserves RFC 4647 matching is bounded (exhaustive small scope)', 'match_lang (inherited language, meta fallback) is not yet under a discharged contract: bounded']
ASSUMPTIONS = TRUSTED
EXPLANATION = ('Proved: the loop of extended_language_filter (incl. its try/except IndexError) equals the recursive transcription of RFC 4647 3.3.2 steps 2-3 on the split subtag lists, for all lists, and terminates. Bounded, exhaustive over all ranges/tags of up to 3 (4) subtags over a 5-symbol alphabet plus "*": extended_language_filter against an RFC 4647 reference; '
               'the inherited language (nearest lang / xml:lang including lang="", meta fallback, iframe boundary) on the corpus. Proved: the hub requires match_lang for every compound.')
LEVEL_TEXT = EXPLANATION
TECHNIQUE = 'contract-based deductive verification of the filtering loop (VCs from the real AST, z3) + bounded (exhaustive small scope) evaluation for wildcard stripping and the inherited language'
MUSTFAIL_PER_FN = {'quick': 1, 'thorough': 6}


def _bt_value_lists(ctx):
    from pyvc import bounded_text
    return bounded_text.value_lists(ctx)


BOUNDED = BOUNDED + [_bt_value_lists]
