"""C13"""
from props._common import *  # noqa

ID = 'C13'
LEVEL = 'other'
MANIFEST_LEVEL = 'other'
FUNCTIONS = HUB

def _bt_lang_filter(ctx):
    from pyvc import bounded_text
    return bounded_text.lang_filter(ctx)

BOUNDED = [_bt_lang_filter, hub_bounded('C13-lang-hub', ['lang', 'basic', 'attrs', 'plain', 'ns', 'svghtml'], ['lang'])]
TRUSTED = [A_PY, A_BS4, 'extended_language_filter and match_lang are not yet under discharged contracts: bounded against RFC 4647 3.3.2 / the inherited-language reference']
ASSUMPTIONS = TRUSTED
EXPLANATION = ('Bounded, exhaustive over all ranges/tags of up to 3 (4) subtags over a 5-symbol alphabet plus "*": extended_language_filter against an RFC 4647 reference; '
               'the inherited language (nearest lang / xml:lang including lang="", meta fallback, iframe boundary) on the corpus. Proved: the hub requires match_lang for every compound.')
LEVEL_TEXT = EXPLANATION
TECHNIQUE = 'bounded (exhaustive small scope) evaluation of the RFC 4647 contract on the real function; hub contract proved'
MUSTFAIL = False


def _bt_value_lists(ctx):
    from pyvc import bounded_text
    return bounded_text.value_lists(ctx)


BOUNDED = BOUNDED + [_bt_value_lists]
