"""C13"""
from props._common import *  # noqa

ID = 'C13'
LEVEL = 'proof'
FUNCTIONS = HUB + [M + 'extended_language_filter'] + LANG + [N + 'iter_attributes', N + 'get_parent', N + 'get_tag_children', N + 'has_html_ns', M + 'is_html_tag', M + 'get_tag', M + 'supports_namespaces']
SHARDS = {'match_selectors': 16, 'extended_language_filter': 8, 'match_lang': 16}
TIMEOUT_MS = {'quick': 30000, 'thorough': 120000}

def _bt_lang_filter(ctx):
    from pyvc import bounded_text
    return bounded_text.lang_filter(ctx)

BOUNDED = [_bt_lang_filter, hub_bounded('C13-lang-hub', ['lang', 'langmeta', 'basic', 'attrs', 'plain', 'ns', 'svghtml', 'xlang'], ['lang'])]
TRUSTED = [A_PY, A_BS4, A_SMT, 'str.lower / str.split / re.sub are uninterpreted (the proof is about the matching loop on the split subtag lists); that stripping non-leading wildcards preserves RFC 4647 matching is bounded (exhaustive small scope)', A_SINGLE, 'split_namespace (getattr of a NamespacedAttribute key) is an assumed contract (A-bs4)']
ASSUMPTIONS = TRUSTED
EXPLANATION = ('Proved: match_lang returns sem_lang = "some range of every :lang() matches elem_lang(el)", where elem_lang is the nearest language attribute '
               '(lang, or xml:lang outside the XHTML namespace in namespace-aware documents) on el or an ancestor within the same document, otherwise the '
               'content-language pragma of html > head > meta of that document (HTML documents, or a detached XHTML html element), otherwise unknown: '
               'all nine loops under invariants, termination of the ancestor walk by depth, the memo table of pragmas under the object invariant '
               'lang_cache_ok (every stored pair is what meta_lang computes: C04.O3), snoc preservation by base/step lemmas. Proved: the loop of extended_language_filter (incl. its try/except IndexError) equals the recursive transcription of RFC 4647 3.3.2 steps 2-3 on the split subtag lists, for all lists, and terminates. Bounded, exhaustive over all ranges/tags of up to 3 (4) subtags over a 5-symbol alphabet plus "*": extended_language_filter against an RFC 4647 reference; '
               'the inherited language (nearest lang / xml:lang including lang="", meta fallback, iframe boundary) again on the corpus by executing the same spec natively. Proved: the hub requires match_lang for every compound.')
LEVEL_TEXT = EXPLANATION
TECHNIQUE = 'contract-based deductive verification of match_lang (inherited language, pragma fallback, memo table) and of the RFC 4647 filtering loop (VCs from the real AST, z3/cvc5) + bounded (exhaustive small scope) evaluation for wildcard stripping'
MUSTFAIL_PER_FN = {'quick': 1, 'thorough': 6}


def _bt_value_lists(ctx):
    from pyvc import bounded_text
    return bounded_text.value_lists(ctx)


BOUNDED = BOUNDED + [_bt_value_lists]

FUNCTIONS = FUNCTIONS + [q for q in [q for q in PARSE_SMALL if q.endswith("parse_pseudo_lang")] if q not in FUNCTIONS]
STRUCTURAL = (globals().get('STRUCTURAL') or []) + [dispatch_structural]
TRUSTED = list(TRUSTED) + [A_TOK]
ASSUMPTIONS = TRUSTED

VALIDATION = (globals().get('VALIDATION') or []) + [validate_single]
