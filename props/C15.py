"""C15 - compiled selectors are immutable values; the pattern cache is transparent."""
from props._common import *  # noqa
ID = 'C15'
LEVEL = 'other'
MANIFEST_LEVEL = 'other'
FUNCTIONS = []


def _s(ctx):
    from pyvc import structural
    return structural.C15_structural(ctx)


def _b(ctx):
    from pyvc import bounded_misc
    return bounded_misc.value_semantics(ctx)


STRUCTURAL = [_s]
BOUNDED = [_b]
TRUSTED = ['A-lru (functools.lru_cache(maxsize=k) of a pure function is transparent, holds at most k entries, cache_clear empties it)',
           'hash() respects == on str/int/bool/None/tuple/re.Pattern field values', 'copyreg/pickle call the registered reducer',
           'private attributes (_hash, ImmutableDict._d) are not part of the public surface']
ASSUMPTIONS = TRUSTED
EXPLANATION = ('Structural obligations read from the class definitions on every run: immutability protocol (__setattr__/__delattr__ raise, __slots__ without '
               '__dict__), equality over every slot, hash over type and value of every field, constructor parameters == __slots__[:-1] (what pickling relies on), '
               'pickle registration, order-independent map hash, cache key = all four arguments, bound 500, purity of the cached function; '
               'round trips, argument-tuple/equality correspondence and cache histories are bounded.')
LEVEL_TEXT = EXPLANATION
TECHNIQUE = 'structural contract obligations over class/function definitions (ownership, immutability, key completeness) + bounded value-semantics sweeps'
