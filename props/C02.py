"""C02"""
from props._common import *  # noqa

ID = 'C02'
LEVEL = 'other'
MANIFEST_LEVEL = 'other'
FUNCTIONS = HUB

def _bt_nth_parse(ctx):
    from pyvc import bounded_text
    return bounded_text.nth_parse(ctx)

BOUNDED = [hub_bounded('C02-nth-hub', ['basic', 'nows', 'multiroot', 'identical', 'small', 'api', 'plain', 'svghtml'], ['nth']), _bt_nth_parse]
TRUSTED = [A_PY, A_BS4, A_SMT, 'match_nth itself is not yet under a discharged contract: its meaning sem_nth (spec/css_ref.py: position among qualifying element siblings, '
           'closed form of An+B) is checked against the real function only on the bounded corpus']
ASSUMPTIONS = TRUSTED
EXPLANATION = ('Proved: the hub calls match_nth for every compound and requires its result (match_selectors == sem_list, which conjoins sem_nth). '
               'Bounded: match_nth against the An+B reference on sibling sequences with and without interleaved text/comment nodes, detached elements, of-S and of-type; '
               'every accepted spelling of An+B against its integer reading.')
LEVEL_TEXT = EXPLANATION
TECHNIQUE = 'contract on the hub proved by VC generation + z3; match_nth and the An+B micro-syntax by bounded evaluation of the same contract (labelled bounded)'
TIMEOUT_MS = {'quick': 20000, 'thorough': 120000}
MUSTFAIL = False
