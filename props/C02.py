"""C02"""
from props._common import *  # noqa

ID = 'C02'
LEVEL = 'proof'
FUNCTIONS = HUB + [M + 'match_nth', M + 'match_nth_tag_type', 'lemma.C02_anb_closed_sound', 'lemma.C02_anb_closed_complete']

def _bt_nth_parse(ctx):
    from pyvc import bounded_text
    return bounded_text.nth_parse(ctx)

BOUNDED = [hub_bounded('C02-nth-hub', ['basic', 'nows', 'multiroot', 'identical', 'small', 'api', 'plain', 'svghtml'], ['nth']), _bt_nth_parse]
TRUSTED = [A_PY, A_BS4, A_IR, A_SMT, 'create_fake_parent is under an assumed contract (a stand-in holding exactly the detached element)',
           'An+B micro-syntax to integers (parse_pseudo_nth) is bounded, not proved']
ASSUMPTIONS = TRUSTED
EXPLANATION = ('Proved for all integers a, b, all sibling sequences and all of-S lists: match_nth == sem_nth, where the position is the number of qualifying '
               'element siblings up to the element (from the end for -last-, same (name, namespace) for -of-type) and An+B is decided in closed form; two lemmas tie the '
               'closed form to "exists n >= 0 with a*n+b == position" (nonlinear arithmetic, z3). Bounded: every accepted spelling of An+B against its integer reading.')
LEVEL_TEXT = EXPLANATION
TECHNIQUE = 'contract-based deductive verification (VCs from the real AST, z3); An+B micro-syntax by bounded evaluation'
TIMEOUT_MS = {'quick': 20000, 'thorough': 120000}
MUSTFAIL_PER_FN = {'quick': 1, 'thorough': 6}

TIMEOUT_MS = {'quick': 60000, 'thorough': 240000}

FUNCTIONS = FUNCTIONS + [q for q in KIDS if q not in FUNCTIONS]

VALIDATION = [validate_bs4]
