"""C18 - date, time and number values validated and ordered as HTML prescribes."""
ID = 'C18'
LEVEL = 'proof'
Q = 'soupsieve.css_match.Inputs.'
FUNCTIONS = [Q + n for n in ('validate_day', 'validate_week', 'validate_month', 'validate_year', 'validate_hour',
                             'validate_minutes', 'parse_value')]
TRUSTED = ['tree-shape precondition (assumed, from the property\'s quantifier): type/min/max/value attributes are strings when present', 'normalize_value under an assumed contract', 'A-py (E1-E6: Python semantics assumed by the encoding; int arithmetic is mathematical, exact for Python)',
           'A-re (CPython re accepts exactly the translated language of RE_DATE/RE_MONTH/RE_WEEK/RE_TIME/RE_DATETIME/RE_NUM)',
           'float() of a numeric string treated as a mathematical real (E6)',
           'A-smt (z3 5.1 / cvc5 1.0.3 answer unsat only when true)']
ASSUMPTIONS = TRUSTED
EXPLANATION = ('Each validator and Inputs.parse_value is symbolically executed from its source in /repo and its postcondition '
               '(result == the HTML-standard value function html_value, spec/calendar.py) is discharged for all integers and all strings.')
TIMEOUT_MS = {'quick': 60000, 'thorough': 240000}
SHARDS = {'parse_value': 8}
LEVEL_TEXT = ('Proof, for all integers and all strings, that the field validators and Inputs.parse_value compute the HTML-standard '
              'value function (Gregorian days per month, ISO-8601 week counts, hour/minute ranges, exact string shapes); '
              'match_range is proved equal to the HTML range semantics (lexicographic = calendar/numeric order, wrapped time ranges, invalid or missing value never out of range). '
              'Outside the two listed known findings.')
from props._common import hub_bounded  # noqa: E402
BOUNDED = [hub_bounded('C18-ranges-hub', ['ranges', 'forms'], ['html'])]

FUNCTIONS = FUNCTIONS + ['soupsieve.css_match.CSSMatch.match_range', 'soupsieve.css_match._DocumentNav.get_attribute_by_name']
SHARDS = {'match_range': 8, 'parse_value': 8, 'match_selectors': 16, 'match_nth': 4}

from props._common import validate_single   # noqa: E402
VALIDATION = (globals().get('VALIDATION') or []) + [validate_single]
