"""C06"""
from props._common import *  # noqa

ID = 'C06'
LEVEL = 'other'
MANIFEST_LEVEL = 'other'
FUNCTIONS = ['soupsieve.util.lower']

def _bt_compile_fuzz(ctx):
    from pyvc import bounded_text
    return bounded_text.compile_fuzz(ctx)

BOUNDED = [_bt_compile_fuzz]
TRUSTED = [A_PY, A_RE, 'the parser state machine (parse_selectors and the leaf parsers) is not yet under discharged contracts: bounded only',
           'known finding C06-int-digit-limit (interpreter int() digit limit)']
ASSUMPTIONS = TRUSTED
EXPLANATION = ('Bounded: every string of one or two fragments from a fragment alphabet covering all token starts, escapes, brackets and trivia (exhaustive), '
               'seeded longer strings, and custom-map cases (malformed names/definitions, cycles spelled with capitals and escapes, case collisions): only the documented '
               'exception types escape compile(). Proved so far: util.lower is total.')
LEVEL_TEXT = EXPLANATION
TECHNIQUE = 'bounded evaluation of the exception-effect contract of compile(); VC-proved leaf (util.lower)'
MUSTFAIL_PER_FN = {"quick": 2, "thorough": None}

FUNCTIONS = FUNCTIONS + ['soupsieve.css_parser.css_unescape.replace@esc', 'soupsieve.css_parser.css_unescape.replace@stresc', 'soupsieve.css_parser.css_unescape']


def _progress(ctx):
    from pyvc import structural
    res = structural.token_progress(ctx)
    return [o for o in res if o['id'].startswith('C06')]


STRUCTURAL = (globals().get('STRUCTURAL') or []) + [_progress]

FUNCTIONS = FUNCTIONS + [q for q in PARSE_SMALL if q not in FUNCTIONS]
STRUCTURAL = (globals().get('STRUCTURAL') or []) + [dispatch_structural]
TRUSTED = list(TRUSTED) + [A_TOK]
ASSUMPTIONS = TRUSTED
