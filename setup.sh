#!/bin/sh
# (the health test imports only tooling, never bs4/soupsieve: a broken /repo must be reported by the checks, not by setup)
# Build the overlay venv (python 3.12 + solvers + the repo's own deps via .pth). Idempotent, offline.
set -e
cd "$(dirname "$0")"
V=.venv
if [ -x $V/bin/python ] && $V/bin/python -c "import z3, cvc5, jsonschema, lxml, html5lib" 2>/dev/null && [ -f $V/lib/python3.12/site-packages/_deps.pth ]; then
  exit 0
fi
(
  flock 9
  if [ -x $V/bin/python ] && $V/bin/python -c "import z3, cvc5, jsonschema, lxml, html5lib" 2>/dev/null && [ -f $V/lib/python3.12/site-packages/_deps.pth ]; then exit 0; fi
  rm -rf $V
  /venv/bin/python -m venv $V
  PIP_NO_INDEX=1 $V/bin/pip install -q --no-index --find-links /opt/veriftools/wheels z3-solver cvc5 jsonschema
  echo "import site; site.addsitedir('/venv/lib/python3.12/site-packages')" > $V/lib/python3.12/site-packages/_deps.pth
  $V/bin/python -c "import z3, cvc5, jsonschema, lxml, html5lib"
) 9>.venv.lock
